#!/bin/bash
# run every registered check once (tier = $1, default quick); prints one summary line per check
cd "$(dirname "$(readlink -f "$0")")"
tier=${1:-quick}
rc=0
for id in C01 C02 C03 C04 C05 C06 C07 C08 C09 C10 C11 C12 C13 C14 C15 C16 C17 C18; do
  out=$(./check $id --tier $tier 2>&1); r=$?
  echo "$out" | grep -E "^(VIOLATION|KNOWN-FINDING|HARNESS)" | head -5
  echo "$out" | tail -1
  [ $r -ne 0 ] && rc=1
done
exit $rc
