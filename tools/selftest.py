#!/venv/bin/python
"""Harness self-test: the oracles must flag hand-made unsound cases and pass sound ones, and the reference
evaluator must agree with the implementation on the domain where no property is in question."""
import math
import sys
from fractions import Fraction

sys.path.insert(0, "/verif")
from mc import repo  # noqa

repo.load()
from mc import sig as SG  # noqa
from mc.explore import choice as CH  # noqa
from mc.explore import rewrite as RW  # noqa
from mc.gen import exprs as X  # noqa
from mc.oracle import acform, audit, equiv, exact, reflex, refgram  # noqa

fails = []


def ok(cond, what):
    if not cond:
        fails.append(what)
        print("FAIL", what)


def S(t):
    return SG.sig(RW.parse(t))


# O-equiv: decided identities and non-identities
for a, b, same in [("2x + 3x", "5x", True), ("(x + 1)^2", "x^2 + 2x + 1", True), ("(x + y)^3", "x^3 + 3x^2 * y + 3x * y^2 + y^3", True),
                   ("x / x", "1", True), ("x^2", "x * x * x", False), ("4 - (2 - x)", "4 + (-2 - x)", False), ("x - y", "y - x", False),
                   ("0.1 + 0.2", "0.3", True), ("sgn(x) * x", "x", False), ("x^0.5 * x^0.5", "x", True)]:
    vd = equiv.same_function(S(a), S(b))
    ok(vd.same == same, f"same_function({a!r}, {b!r}) should be {same}")
for a, b, same in [("3x = 6", "x = 2", True), ("x + 2 = 3", "x = 3 - 2", True), ("(x + 4) * x = x", "4 * x = x - x", False), ("x = 2", "2 = x", True),
                   ("x^2 = 4", "x = 2", False)]:
    vd = equiv.same_solutions(S(a), S(b))
    ok(vd.same == same, f"same_solutions({a!r}, {b!r}) should be {same}")

# an intentionally unsound fake rule is flagged by the C01 judge, a sound one passes
from mc.props import c01  # noqa
root = RW.parse("2x + 3")
bad = RW.parse("2x + 4")
good = RW.parse("3 + 2x")
ok(any(c for c, _ in c01.judge(SG.sig(root), root, "FAKE", bad, None)), "unsound fake rewrite must be flagged")
ok(not any(c for c, _ in c01.judge(SG.sig(root), root, "FAKE", good, None)), "sound fake rewrite must pass")

# O-exact agrees with the implementation on small integer trees (no division, no powers: no property in question)
agree = 0
for t in X.uniform(3, leaves=["2", "3", "-3", "0", "1"], ops=["+", "-", "*"], unary=False):
    tree = RW.parse(t)
    v, st = exact.evaluate(SG.sig(tree), {})
    ok(v == Fraction(tree.evaluate()), f"exact evaluator disagrees with evaluate() on {t}")
    agree += 1

# O-audit flags broken links
from mathy_core.expressions import AddExpression, ConstantExpression  # noqa
a = AddExpression(ConstantExpression(1), ConstantExpression(2))
a.left.parent = None
ok(audit.link_audit(a), "audit must flag a child whose parent link is wrong")
shared = ConstantExpression(1)
b = AddExpression(shared, ConstantExpression(2))
b.right = shared
ok(audit.link_audit(b), "audit must flag a node object that occurs twice")

# O-lex / O-gram
ok(reflex.lex("sgnx") == [("Variable", c) for c in "sgnx"] + [("EOF", "")], "letter run that is not a function name")
ok(reflex.lex("sgn")[0] == ("Function", "sgn"), "function name")
ok(SG.show(refgram.parse(reflex.lex("8/4/2"))) == "((8 / 4) / 2)", "left fold of /")
ok(SG.show(refgram.parse(reflex.lex("xy^2"))) == "(x * (y ^ 2))", "exponent binds to the last factor")
try:
    refgram.parse(reflex.lex("2^3^2"))
    ok(False, "2^3^2 is not derivable")
except refgram.Reject:
    pass

# O-ac
ok(acform.ac(S("a + (b + c)")) == acform.ac(S("(c + a) + b")), "AC form ignores order and grouping of +")
ok(acform.ac(S("a - b")) != acform.ac(S("b - a")), "AC form keeps - positional")

# E-choice: recorded answers of the real RNG replay to identical output
import random as _r  # noqa
from mc.props import c17  # noqa
for seed in range(20):
    rec = CH.Recorder(_r.Random(seed))
    s1, v1 = c17.run_one("gen_commute_haystack", {}, True, rec)
    s2, v2 = c17.run_one("gen_commute_haystack", {}, True, CH.Oracle(answers=rec.log))
    ok((s1, repr(v1)) == (s2, repr(v2)), f"choice replay differs for seed {seed}")

print(f"selftest: {agree} evaluator agreements; {len(fails)} failures")
sys.exit(1 if fails else 0)
