#!/bin/bash
# tools/try_patch.sh <patch.diff> <tier> <check id>...   - run checks against a scratch copy of /repo with the patch applied.
# The copy is a git worktree under a mktemp dir (outside /repo and /verif) and is removed afterwards.
# Evidence / replays of these runs go to a temp dir (VERIF_OUT_DIR), never to /verif/evidence.
set -u
patch=$(readlink -f "$1"); tier=$2; shift 2
here=$(dirname "$(dirname "$(readlink -f "$0")")")
tmp=$(mktemp -d /tmp/vt-XXXXXX)
git -C /repo worktree add -q --detach "$tmp/repo" HEAD || exit 2
cleanup() { git -C /repo worktree remove --force "$tmp/repo" >/dev/null 2>&1; rm -rf "$tmp"; }
trap cleanup EXIT
if ! git -C "$tmp/repo" apply "$patch" 2>/dev/null && ! git -C "$tmp/repo" apply -C1 --recount "$patch" 2>/dev/null && ! (cd "$tmp/repo" && patch -p1 -F3 --no-backup-if-mismatch < "$patch" >/dev/null); then echo "PATCH-DOES-NOT-APPLY $patch"; exit 2; fi
suite=$(cd "$tmp/repo" && /venv/bin/python -m pytest -q -p no:cacheprovider 2>&1 | tail -1)
echo "suite: $suite"
for id in "$@"; do
  out=$(cd "$here" && VERIF_REPO="$tmp/repo" VERIF_OUT_DIR="$tmp/out" ./check "$id" --tier "$tier" 2>&1); rc=$?
  nv=$(echo "$out" | grep -c '^VIOLATION')
  echo "== $id rc=$rc violations_lines=$nv"
  echo "$out" | grep -A2 '^VIOLATION' | head -9
  echo "$out" | grep -E '^(HARNESS|Traceback)' | head -3
done
