#!/bin/bash
# re-confirm every kept seeded change against the current checks and rewrite its meta.json
cd /verif
related() {
  case $1 in
    C01) echo "C01 C09 C02";; C02) echo "C02 C09";; C03) echo "C03 C10 C12";; C04) echo "C04 C09 C12 C10";; C05) echo "C05";;
    C06) echo "C06";; C07) echo "C07";; C08) echo "C08 C01 C02";; C09) echo "C09 C01 C02";; C10) echo "C10 C12 C03";;
    C11) echo "C11 C10";; C12) echo "C12 C10";; C13) echo "C13";; C14) echo "C14";; C15) echo "C15 C07";;
    C16) echo "C16";; C17) echo "C17";; C18) echo "C18";;
  esac
}
for d in seeded/C*-*/; do
  name=$(basename $d); prop=${name%-*}
  echo "### $name"
  tools/seed_keep.py $prop /verif/seeded/$name - $name $(related $prop) 2>&1 | grep -E "^check|NOT CONF|KEPT|PATCH"
done
