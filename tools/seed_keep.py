#!/venv/bin/python
"""tools/seed_keep.py <property> <srcdir> <k> <name> [check ids...]

Confirm a seeded change independently and keep it under /verif/seeded/<name>/:
  * the patch applies to a clean scratch worktree of /repo HEAD,
  * the repository's own suite still passes with it (110 passed),
  * the demonstration passes without the patch and fails with it,
  * then run the given checks (quick tier) against the patched copy and record which report a violation.
Everything runs in a mktemp worktree that is removed afterwards."""
import json
import os
import shutil
import subprocess
import sys
import tempfile

prop, src, k, name = sys.argv[1:5]
checks = sys.argv[5:] or [prop]
tier = os.environ.get("SEED_TIER", "quick")
if k == "-":  # refresh an already kept seed in place
    patch = os.path.join(src, "patch.diff")
    demo = os.path.join(src, "demo.py")
    note = os.path.join(src, "note.md")
else:
    patch = os.path.join(src, f"patch{k}.diff")
    demo = os.path.join(src, f"demo{k}.py")
    note = os.path.join(src, f"note{k}.md")
tmp = tempfile.mkdtemp(prefix="vt-", dir="/tmp")
wt = os.path.join(tmp, "repo")


def sh(cmd, cwd=None, env=None):
    p = subprocess.run(cmd, shell=True, cwd=cwd, env=env, capture_output=True, text=True)
    return p.returncode, p.stdout + p.stderr


try:
    rc, out = sh(f"git -C /repo worktree add -q --detach {wt} HEAD")
    assert rc == 0, out
    head = sh("git -C /repo rev-parse --short HEAD")[1].strip()
    shutil.copy(demo, os.path.join(wt, "_demo.py"))
    rc0, out0 = sh("/venv/bin/python _demo.py", cwd=wt)
    rc, out = sh(f"git apply {patch}", cwd=wt)
    if rc != 0:
        # /repo HEAD moved on by a later fix: commit nearby; retry with reduced context, then with fuzz
        rc, out = sh(f"git apply -C1 --recount {patch}", cwd=wt)
    if rc != 0:
        rc, out = sh(f"patch -p1 -F3 --no-backup-if-mismatch < {patch}", cwd=wt)
    if rc != 0:
        print("PATCH DOES NOT APPLY", out)
        sys.exit(2)
    rc1, out1 = sh("/venv/bin/python _demo.py", cwd=wt)
    os.remove(os.path.join(wt, "_demo.py"))
    rcs, outs = sh("/venv/bin/python -m pytest -q -p no:cacheprovider 2>&1 | tail -1", cwd=wt)
    suite_ok = "110 passed" in outs and "failed" not in outs
    print(f"demo without patch rc={rc0}; with patch rc={rc1}; suite: {outs.strip()}")
    if rc0 != 0 or rc1 == 0 or not suite_ok:
        print("NOT CONFIRMED - not kept")
        print(out0[-300:], out1[-300:])
        sys.exit(1)
    results = {}
    for c in checks:
        env = dict(os.environ, VERIF_REPO=wt, VERIF_OUT_DIR=os.path.join(tmp, "out"))
        rc, out = sh(f"./check {c} --tier {tier}", cwd="/verif", env=env)
        viol = [l for l in out.splitlines() if l.startswith("VIOLATION")]
        cores = [l.strip() for l in out.splitlines() if l.strip().startswith("core:")][:3]
        results[c] = {"exit": rc, "violation_lines": len(viol), "first_cores": cores}
        print(f"check {c}: exit {rc}, {len(viol)} VIOLATION lines", cores[:1])
    dest = os.path.join("/verif/seeded", name)
    os.makedirs(dest, exist_ok=True)
    old_meta = {}
    if os.path.exists(os.path.join(dest, "meta.json")):
        old_meta = json.load(open(os.path.join(dest, "meta.json")))
    if os.path.abspath(patch) != os.path.abspath(os.path.join(dest, "patch.diff")):
        shutil.copy(patch, os.path.join(dest, "patch.diff"))
        shutil.copy(demo, os.path.join(dest, "demo.py"))
    needs = open(note).read() if os.path.exists(note) else old_meta.get("what_it_needs_to_manifest", "")
    first = old_meta.get("first_run_detected_by", old_meta.get("detected_by"))
    meta = {
        "property": prop,
        "base_commit": head,
        "what_it_needs_to_manifest": needs,
        "confirmed": {
            "suite_with_patch": outs.strip(),
            "demo_without_patch_exit": rc0,
            "demo_with_patch_exit": rc1,
            "demo_with_patch_output_tail": out1[-400:],
        },
        "checks_run": {"tier": tier, "results": results},
        "detected_by": [c for c, r in results.items() if r["exit"] == 1],
        "first_run_detected_by": first if first is not None else [c for c, r in results.items() if r["exit"] == 1],
        "how_run": "tools/seed_keep.py: scratch git worktree of /repo HEAD under /tmp, git apply patch.diff, pytest, demo.py, "
                   "./check <id> --tier quick with VERIF_REPO pointing at the patched copy; worktree removed afterwards",
    }
    with open(os.path.join(dest, "meta.json"), "w") as f:
        json.dump(meta, f, indent=1)
    print("KEPT", dest, "detected_by", meta["detected_by"])
finally:
    sh(f"git -C /repo worktree remove --force {wt}")
    shutil.rmtree(tmp, ignore_errors=True)
