"""Deterministic parallel map over fork()ed workers."""
import multiprocessing as mp
import os

_CTX = mp.get_context("fork")
_POOL = None


def nprocs():
    try:
        n = int(os.environ.get("VERIF_PROCS", "0"))
    except ValueError:
        n = 0
    return n or min(16, os.cpu_count() or 1)


def _call(args):
    fn, task = args
    return fn(task)


def pmap(fn, tasks, procs=None, fresh=False):
    """Run fn(task) for every task; results come back in task order.

    fn must be a module-level function.  Module globals computed in the parent
    before the first call are inherited by the workers (fork).
    fresh=True: every task runs in its own newly forked process, so whatever module-level state the code
    under test accumulates (caches, counters) depends only on that task - its outcome is reproducible by
    run_fresh(fn, task)."""
    tasks = list(tasks)
    procs = procs or nprocs()
    if fresh:
        with _CTX.Pool(processes=min(procs, max(1, len(tasks))), maxtasksperchild=1) as pool:
            return pool.map(_call, [(fn, t) for t in tasks], chunksize=1)
    if procs <= 1 or len(tasks) <= 1:
        return [fn(t) for t in tasks]
    with _CTX.Pool(processes=min(procs, len(tasks))) as pool:
        return pool.map(_call, [(fn, t) for t in tasks], chunksize=1)


def run_fresh(fn, task):
    """fn(task) in one newly forked process (plain os.fork, so it also works inside a pool worker or inside
    another run_fresh); the result comes back pickled through a pipe; an exception in the child is re-raised"""
    import pickle
    import traceback

    r, w = os.pipe()
    pid = os.fork()
    if pid == 0:
        code = 0
        try:
            os.close(r)
            try:
                payload = pickle.dumps(("ok", fn(task)))
            except BaseException as e:  # noqa
                payload = pickle.dumps(("err", f"{type(e).__name__}: {e}\n{traceback.format_exc()}"))
            with os.fdopen(w, "wb") as f:
                f.write(payload)
        except BaseException:  # noqa
            code = 1
        finally:
            os._exit(code)
    os.close(w)
    with os.fdopen(r, "rb") as f:
        data = f.read()
    os.waitpid(pid, 0)
    if not data:
        raise RuntimeError("run_fresh: the child process died without an answer")
    status, value = pickle.loads(data)
    if status == "err":
        raise RuntimeError("run_fresh: " + value)
    return value


def chunks(n, parts):
    """Split range(n) into at most `parts` contiguous (start, stop) pieces."""
    parts = max(1, min(parts, n)) if n else 1
    out = []
    base, extra = divmod(n, parts)
    start = 0
    for i in range(parts):
        size = base + (1 if i < extra else 0)
        if size:
            out.append((start, start + size))
        start += size
    return out
