"""Deterministic parallel map over fork()ed workers."""
import multiprocessing as mp
import os

_CTX = mp.get_context("fork")
_POOL = None


def nprocs():
    try:
        n = int(os.environ.get("VERIF_PROCS", "0"))
    except ValueError:
        n = 0
    return n or min(16, os.cpu_count() or 1)


def _call(args):
    fn, task = args
    return fn(task)


def pmap(fn, tasks, procs=None):
    """Run fn(task) for every task; results come back in task order.

    fn must be a module-level function.  Module globals computed in the parent
    before the first call are inherited by the workers (fork)."""
    tasks = list(tasks)
    procs = procs or nprocs()
    if procs <= 1 or len(tasks) <= 1:
        return [fn(t) for t in tasks]
    with _CTX.Pool(processes=min(procs, len(tasks))) as pool:
        return pool.map(_call, [(fn, t) for t in tasks], chunksize=1)


def chunks(n, parts):
    """Split range(n) into at most `parts` contiguous (start, stop) pieces."""
    parts = max(1, min(parts, n)) if n else 1
    out = []
    base, extra = divmod(n, parts)
    start = 0
    for i in range(parts):
        size = base + (1 if i < extra else 0)
        if size:
            out.append((start, start + size))
        start += size
    return out
