"""./check <ID> [--tier quick|thorough] [--replay file]

exit 0: property held on everything explored (known findings are printed, not alarms)
exit 1: a violation that is not a listed known finding: `VIOLATION property=<id> replay=<path>`
exit 2: harness error (never a verdict about the code)
"""
import argparse
import hashlib
import importlib
import json
import os
import subprocess
import sys
import time
import traceback

from . import findings

ROOT = os.path.dirname(os.path.dirname(os.path.abspath(__file__)))


def _seed():
    try:
        return int(os.environ.get("VERIF_SEED", "0"))
    except ValueError:
        return 0


def write_json(path, obj):
    tmp = path + ".tmp"
    with open(tmp, "w") as f:
        json.dump(obj, f, indent=1, sort_keys=False, default=str)
        f.write("\n")
    os.replace(tmp, path)


def _dir(name):
    """evidence/ and replays/ live in /verif; scratch runs against seeded copies redirect them"""
    d = os.environ.get("VERIF_OUT_DIR")
    d = os.path.join(d, name) if d else os.path.join(ROOT, name)
    os.makedirs(d, exist_ok=True)
    return d


def write_replay(prop, core, example):
    h = hashlib.sha1((prop + "|" + core).encode()).hexdigest()[:12]
    path = os.path.join(_dir("replays"), f"{prop}-{h}.json")
    from . import unittest_gen

    test = None
    try:
        test = unittest_gen.for_case(prop, example["case"])
    except Exception:  # noqa
        test = None
    write_json(path, {"property": prop, "core": core, "case": example["case"], "detail": example["detail"],
                      "replay_cmd": f"./check {prop} --replay {path}",
                      "plain_unit_test": test or f"(no stand-alone form for this case kind; use ./check {prop} --replay {path})"})
    return path


def do_replay(mod, prop, path):
    with open(path) as f:
        data = json.load(f)
    case = data["case"]
    got = mod.replay(case)
    known = findings.load(prop)
    rc = 0
    if not got:
        print(f"REPLAY property={prop} holds on this case")
    for core, detail in got:
        tag = "KNOWN-FINDING:" if findings.match(known, core) else "VIOLATION"
        if tag == "VIOLATION":
            rc = 1
            print(f"VIOLATION property={prop} replay={path}")
        else:
            print(f"KNOWN-FINDING: property={prop} {core}")
        print(f"  core: {core}\n  detail: {detail}")
    return rc


def main(argv=None):
    ap = argparse.ArgumentParser()
    ap.add_argument("prop")
    ap.add_argument("--tier", default=os.environ.get("VERIF_TIER", "quick"), choices=["quick", "thorough"])
    ap.add_argument("--replay")
    args = ap.parse_args(argv)
    prop = args.prop.upper()
    seed = _seed()
    try:
        from . import repo

        repo.load()
        mod = importlib.import_module(f"mc.props.{prop.lower()}")
        if args.replay:
            return do_replay(mod, prop, args.replay)
        t0 = time.time()
        acc, coverage, assumptions = mod.run(args.tier, seed)
        known = findings.load(prop)

        from . import par

        def replay_fresh(case):
            # the runner process itself never executes the code under test: every replay runs in a newly forked
            # child, so module-level state of the code under test cannot leak from one replay into the next
            return par.run_fresh(mod.replay, case)

        # listed findings: re-execute each witness on the current tree
        lines = []
        stale = []
        for e in known:
            cores = [c for c, _ in replay_fresh(e["witness"])]
            if any(findings.match([e], c) for c in cores):
                lines.append(f"KNOWN-FINDING: property={prop} {e['what']}")
            else:
                stale.append(e.get("core", e.get("core_regex")))
                lines.append(f"NOTE: listed finding no longer reproduces on this tree: {e['what']}")

        unknown = []
        known_seen = {}
        for core, ent in acc.viol.items():
            e = findings.match(known, core)
            if e is None:
                unknown.append((core, ent))
            else:
                k = e.get("core", e.get("core_regex"))
                known_seen[k] = known_seen.get(k, 0) + ent["count"]

        rc = 0
        out = []
        for n_unknown, (core, ent) in enumerate(unknown):
            if n_unknown >= 20:
                # a change that breaks thousands of distinct cases: the first twenty are replayed and written out
                rc = 1
                break
            ex = ent["examples"][0]
            if isinstance(ex["case"], dict):
                ex["case"] = dict(ex["case"], _core=core)  # lets a replay look for exactly this violation
            # a violation must reproduce from its recorded case before it is believed
            again = [c for c, _ in replay_fresh(ex["case"])]
            again2 = [c for c, _ in replay_fresh(ex["case"])]
            if core not in again or again != again2:
                print(f"HARNESS-ERROR property={prop} violation does not replay deterministically: {core}")
                print(f"  first={again} second={again2}")
                return 2
            path = write_replay(prop, core, ex)
            out.append(f"VIOLATION property={prop} replay={path}")
            out.append(f"  core: {core}  (x{ent['count']})")
            out.append(f"  detail: {ex['detail']}")
            rc = 1

        wall = time.time() - t0
        coverage = dict(coverage)
        coverage.setdefault("samples", acc.samples[:8] or ["(none)"])
        coverage["counters"] = dict(sorted(acc.n.items()))
        coverage["known_finding_hits"] = known_seen
        coverage["stale_listed_findings"] = stale
        coverage["unlisted_violation_cores"] = [c for c, _ in unknown][:50]
        ev = {
            "property_id": prop,
            "tier": args.tier,
            "seed": seed,
            "level": mod.LEVEL,
            "coverage": coverage,
            "assumptions": assumptions,
            "wall_s": round(wall, 2),
            "violations": sum(ent["count"] for _, ent in unknown),
        }
        write_json(os.path.join(_dir("evidence"), f"{prop}.json"), ev)
        for ln in lines:
            print(ln)
        for ln in out[:60]:
            print(ln)
        if len(unknown) > 20:
            print(f"  ... {len(unknown)} distinct unlisted cores in total")
        summ = {k: coverage[k] for k in ("evaluations", "distinct_nontrivial", "states", "transitions",
                                          "traces_validated_against_impl", "exhaustive") if k in coverage}
        print(f"{prop} tier={args.tier} seed={seed} {summ} wall={wall:.1f}s "
              f"{'OK' if rc == 0 else 'VIOLATED'}")
        return rc
    except SystemExit:
        raise
    except BaseException:
        traceback.print_exc()
        print(f"HARNESS-ERROR property={prop}")
        return 2


if __name__ == "__main__":
    sys.exit(main())
