"""Regenerate /verif/MANIFEST.json from the table below:  /venv/bin/python -m mc.manifest"""
import json
import os

ROOT = os.path.dirname(os.path.dirname(os.path.abspath(__file__)))

# id -> (level, technique, text, note, design_ref)
CHECKS = {
    "C01": ("model_checking",
            "explicit-state exploration of the rewrite transition system on the real rules (all starts x 11 configs x all nodes), grid oracle with degree bounds",
            "State = expression tree, transition = (rule configuration, node) executed by the real apply_to on clone_from_root. Every "
            "applicable transition of every start state up to the size bound (and of their rewrite closure to the stated depth) is "
            "executed and the value compared on a rational grid; inside the rational fragment the degree argument makes equality decided. "
            "Two driving modes: every step on clone_from_root, and two steps applied to the live tree with every state scanned as a "
            "search agent does; the result is also evaluated with the library's own evaluator at assignments around 2**62.",
            "independent exact evaluator and the degree-bound argument (DESIGN.md section 3); bounds on tree size and depth", "5 C01"),
    "C02": ("model_checking",
            "explicit-state exploration of the rewrite system from equation states; difference-function oracle",
            "All equation start states of the term-structured, ancestor-context and repository families, closed under rewrites to the stated "
            "depth; every applicable transition is executed on the real code and the solution sets compared; balanced moves must not "
            "introduce undefined points and must keep an equation.",
            "solution sets compared through L-R on a rational grid (proportional => equal; undecided cases counted, never flagged)", "5 C02"),
    "C03": ("exploration",
            "bounded exhaustive enumeration of all token strings, compared with a reference grammar model (acceptance + value)",
            "Every token-class string up to the length bound (pairwise distinct leaf lexemes) and every short lexeme concatenation is "
            "parsed by the real parser and by the reference grammar O-gram; acceptance must coincide and the parsed tree must have the "
            "value the grammar prescribes (decided on a rational grid by degree bounds).",
            "O-gram: greedy reading of the docstring EBNF plus the clauses of the property statement; O-lex; exact evaluator", "5 C03"),
    "C10": ("model_checking",
            "exhaustive enumeration of token soups under a watchdog + exhaustive parse-call histories on one parser vs a fresh parser",
            "Totality and the closed error contract are checked on every token soup up to the bound, every truncation of the repository "
            "examples and six nesting constructs up to depth 50; stickiness by every sequence of parse calls up to the depth bound over one "
            "input per raise site, each call compared with a fresh parser.",
            "10 s watchdog = non-termination; documented errors = ParserException subclasses and ValueError", "5 C10"),
    "C11": ("exploration",
            "bounded exhaustive enumeration of all character strings vs a reference lexer, both padding modes",
            "Every string up to the length bound over a 25-character alphabet covering every character class, alias, blank and two "
            "unsupported characters is tokenized in both padding modes and compared token by token with the reference lexer; "
            "losslessness, end marker and ValueError-iff-unsupported are checked on each.",
            "O-lex written from the property statement; representative characters per class", "5 C11"),
    "C12": ("model_checking",
            "exhaustive enumeration of operation histories (parse / tokenize / clear_cache / list mutation) on one live parser",
            "Every sequence of operations up to the depth bound on one parser, replayed from a fresh instance, with every returned tree "
            "and token list compared with a fresh parser's answer.",
            "token objects and returned trees are not mutated by the harness", "5 C12"),
    "C04": ("exploration",
            "bounded exhaustive enumeration of parser outputs and rewrite outputs; print -> parse -> grid equivalence",
            "Every tree the parser returns for the token-class strings up to the bound, every start tree of the expression / equation "
            "families and every tree reached from them by the stated number of rewrite steps is printed, re-parsed and compared "
            "(variables, value on a rational grid / solution set). Failures are localised to the smallest failing subtree.",
            "exact evaluator + degree-bound grid; NaN/inf constants excluded as the property says", "5 C04"),
    "C05": ("exploration",
            "bounded exhaustive enumeration of small trees over a magnitude alphabet vs Python big-int / IEEE reference",
            "All trees up to the node bound whose leaves (constants and variable values) range over a magnitude alphabet bracketing the "
            "int64 and float64 boundaries are evaluated and compared with exact Python integers (exact class), with the same IEEE "
            "operation sequence (float class, 4 ulp per operation of the largest intermediate), NaN for x/0, plus the unbound-variable "
            "and equation clauses (integer and float sides), operands beyond the float range, value-equal int/float twins evaluated in "
            "sequence, evaluate / rewrite in place / evaluate histories, and a differential of a fixed evaluation battery before / "
            "after unrelated calls (each chunk in a freshly forked process).",
            "Python int and float arithmetic as reference; classes the property leaves unspecified are not judged", "5 C05"),
    "C13": ("exploration",
            "bounded exhaustive enumeration of constructor-built trees (operand on either side) x every node for clone_from_root",
            "Every tree up to the node bound over all node kinds, with one-operand nodes holding the operand on either side, plus parser "
            "and rewrite outputs: clone() compared field by field, printed, evaluated, mutated in both directions; clone_from_root() "
            "from every node must return the copy of that node at the same position in a complete copy.",
            "self form of clone_from_root only", "5 C13"),
    "C16": ("exploration",
            "bounded exhaustive enumeration of addend multisets x permutations x groupings, triples, integers, trees",
            "has_like_terms over all permutations and groupings of every multiset of addends up to the bound (terms and non-term addends such as 2(y + 1), 2^x, sgn(x)); terms_are_like on all "
            "ordered pairs; every (coefficient, variable, exponent) triple through text -> get_term_ex and make_term -> value / "
            "decomposition; factor(n) against the divisor table for every n up to the bound; all predicates on all small trees.",
            "exact evaluator for make_term values", "5 C16"),
    "C18": ("model_checking",
            "exhaustive enumeration of all tree shapes x unit settings x layout-call histories on the same node objects",
            "Every binary tree shape up to the bound is laid out under three unit settings, mirrored, and through five call histories on "
            "the same node objects; all tidy-tree invariants, the bounding box and equality with a freshly built tree are checked.",
            "'one unit apart' measured between in-order neighbours of one depth", "5 C18"),
    "C08": ("exploration",
            "bounded exhaustive enumeration of documented rule schemas x contexts, compared with independently built shapes (AC-canonical)",
            "Every instantiation of the documented schemas over the coefficient / variable / exponent / operand alphabets, embedded in "
            "the context set, must be accepted by the rule and produce the documented shape at the schema position (AC-canonical "
            "comparison; exact value for folds; A*(T1+T2) with monomial equality for factoring); documented refusals must be refused.",
            "expected shapes written by the harness from the rule documentation; AC-canonical form", "5 C08"),
    "C09": ("model_checking",
            "explicit-state breadth-first search over the real rewrite system with live stored states and creation snapshots",
            "BFS to the depth bound from every seed; every reachable canonical state expanded with every applicable transition on "
            "clone_from_root; every new state audited, printed and re-parsed and compared with the START state; stored live states "
            "re-verified against their creation snapshot when expanded and at the end; recorded traces replayed from the seed text.",
            "state key = structural signature; seeds that hit the state cap are reported and the run is then not called exhaustive", "5 C09"),
    "C17": ("model_checking",
            "deviation-bounded exhaustive exploration of the choice tree of the random module + replay of recorded real-RNG traces",
            "The harness owns the random object seen by problems.py; all executions with at most B departures from a fair default "
            "answer, under three default policies, for every generator x parameter setting x both number modes; output must parse, have "
            "positive complexity and contain the promised like pair; get_rand_vars and split_in_two_random are checked directly; the "
            "scripted oracle is validated by replaying answers recorded from the real random.Random(seed).",
            "answer menus abstract value ranges by their ends / middle; fair default for randint", "5 C17"),
    "C06": ("model_checking",
            "explicit-state exploration: every state x every configuration x every node; snapshot oracle for purity",
            "For every explored state can_apply_to is called on every node under every configuration with a before/after snapshot of the "
            "whole tree, repeated, and repeated on an independently built identical tree; find_nodes/find_node compared with the in-order "
            "applicable list; every applicable transition executed and required to return an expression; also on live trees after in-place "
            "rewrites, on trees whose identical subtrees share node ids, and as a differential of a fixed battery of rule answers "
            "before / after unrelated calls.",
            "snapshot covers links, payload, ids, classes, _changed, r_index", "5 C06"),
    "C07": ("model_checking",
            "explicit-state exploration of all applicable transitions with link audit / context / isolation oracles",
            "Every applicable transition of every explored state is executed on clone_from_root; the result is audited (links, arity, no "
            "shared objects, variable set, replacement position, context subtrees unchanged, printer agrees with links, the balanced move "
            "moved the requested term) and the source tree snapshot is compared; live-tree mode with and without re-listing.",
            "footprint root: node / parent (associative) / root (balanced move)", "5 C07"),
    "C14": ("exploration",
            "bounded exhaustive enumeration of all tree shapes x orders x stop positions on the real code",
            "Every binary tree shape up to the bound (one-child nodes included), the three traversal orders, every stop position and every "
            "look-up query, compared with reference recursions over the links; list / look-up, re-link, list / look-up histories on every non-root node.",
            "reference traversals are the textbook recursions", "5 C14"),
    "C15": ("exploration",
            "bounded exhaustive enumeration of all tree shapes x all nodes on the real code",
            "Every binary tree shape up to the node bound and every node in it is rotated on freshly built real "
            "nodes; in-order sequence, link audit, node-above-parent and grandparent link are checked on each. "
            "Complete up to the bound, nothing claimed beyond it.",
            "reference traversals by links only; rotation assumed to depend on link structure only", "5 C15"),
}

ALL = [f"C{i:02d}" for i in range(1, 19)]
PENDING_REASON = "check under construction in this round (see DESIGN.md section 5); not claimed until its check is registered"


def build():
    checks = []
    for pid in ALL:
        if pid not in CHECKS:
            continue
        level, technique, text, note, ref = CHECKS[pid]
        checks.append({
            "property_id": pid,
            "quick_cmd": f"./check {pid} --tier quick",
            "thorough_cmd": f"./check {pid} --tier thorough",
            "evidence_file": f"/verif/evidence/{pid}.json",
            "replay_cmd_template": f"./check {pid} --replay {{path}}",
            "engine": "mc",
            "level_claimed": {"category": level, "text": text, "design_ref": f"DESIGN.md section {ref}"},
            "level_note": note,
            "technique": technique,
        })
    man = {
        "version": 1,
        "setup_cmd": "/venv/bin/python -m compileall -q mc >/dev/null 2>&1; /venv/bin/python -c 'import sys; sys.path.insert(0, \"/repo\"); import mathy_core, numpy'",
        "hooks": {
            "guard": "MATHY_CORE_VERIF",
            "enable": "no source hooks are needed: every check drives the public API of /repo's working tree from the harness process",
            "baseline_off_cmd": "cd /repo && /venv/bin/python -m pytest -ra -q -p no:cacheprovider --timeout=900 --continue-on-collection-errors",
            "source_commits": [],
            "add_only": True,
        },
        "engines": [{
            "name": "mc",
            "path": "/verif/mc",
            "serves_properties": [c["property_id"] for c in checks],
            "kind_free_text": "hand-written explicit-state / bounded-exhaustive explorer in Python driving the real mathy_core "
                              "(shape, string, expression, rewrite-BFS, call-history and choice-tree engines) with small reference models",
        }],
        "checks": checks,
        "not_applicable": [{"property_id": p, "reason": PENDING_REASON} for p in ALL if p not in CHECKS],
        "notes": "All checks run /venv/bin/python on /repo's working tree (VERIF_REPO overrides the path for scratch copies). "
                 "Known findings: /verif/known_findings.json. Seeded property-breaking changes: /verif/seeded/.",
    }
    return man


if __name__ == "__main__":
    with open(os.path.join(ROOT, "MANIFEST.json"), "w") as f:
        json.dump(build(), f, indent=1)
        f.write("\n")
    print("MANIFEST.json written:", len(build()["checks"]), "checks")
