"""Import mathy_core from the tree under test ($VERIF_REPO, default /repo)."""
import os
import sys

REPO = os.path.realpath(os.environ.get("VERIF_REPO", "/repo"))


def load():
    if sys.path[0] != REPO:
        sys.path.insert(0, REPO)
    import mathy_core  # noqa

    here = os.path.realpath(mathy_core.__file__)
    if not here.startswith(REPO + os.sep):
        raise RuntimeError(f"mathy_core imported from {here}, expected under {REPO}")
    return mathy_core
