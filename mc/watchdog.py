"""Per-call watchdog: a call that runs 10 s (about 10^5 x the normal time) is 'does not terminate'."""
import signal


class Timeout(BaseException):
    pass


def _handler(signum, frame):
    raise Timeout()


def install():
    signal.signal(signal.SIGALRM, _handler)


def guarded(fn, *args, seconds=10.0):
    """(ok, value_or_exception); Timeout is returned as the exception object"""
    signal.setitimer(signal.ITIMER_REAL, seconds)
    try:
        try:
            return True, fn(*args)
        finally:
            signal.setitimer(signal.ITIMER_REAL, 0)
    except Timeout as t:
        return False, t
    except Exception as e:  # noqa
        return False, e
