"""Plain unit tests for replay files: a few lines of Python that reproduce a recorded case with nothing
but mathy_core (no explorer, no oracle) and print what happens, so that a reader can see the violation."""

RULES = {
    "AG": "AssociativeSwapRule()", "BM": "BalancedMoveRule()", "CS+": "CommutativeSwapRule(preferred=True)",
    "CS-": "CommutativeSwapRule(preferred=False)", "CA": "ConstantsSimplifyRule()", "DF": "DistributiveFactorOutRule(constants=False)",
    "DFc": "DistributiveFactorOutRule(constants=True)", "DM": "DistributiveMultiplyRule()", "MI": "MultiplicativeInverseRule()",
    "RS": "RestateSubtractionRule()", "VM": "VariableMultiplyRule()",
}

HEAD = "import sys; sys.path.insert(0, '/repo')\nfrom mathy_core.parser import ExpressionParser\nfrom mathy_core.rules import *\n"


def for_case(prop, case):
    if not isinstance(case, dict):
        return None
    if "text" in case and "trace" in case and ("cfg" in case or case.get("mode")):
        steps = list(case["trace"])
        if "cfg" in case and case.get("index", -1) >= 0:
            steps = steps + [[case["cfg"], case["index"]]]
        used = sorted({c for c, _ in steps})
        lines = [HEAD, "rules = {" + ", ".join(f"{c!r}: {RULES[c]}" for c in used if c in RULES) + "}",
                 f"tree = ExpressionParser().parse({case['text']!r})", "print('start :', tree)"]
        inplace = bool(case.get("inplace"))
        for c, i in steps:
            lines.append(f"node = tree.to_list('inorder')[{i}]")
            lines.append(f"assert rules[{c!r}].can_apply_to(node), 'rule {c} does not apply at in-order index {i}'")
            if inplace:
                lines.append(f"tree = rules[{c!r}].apply_to(node).result.get_root()")
            else:
                lines.append(f"tree = rules[{c!r}].apply_to(node.clone_from_root()).result.get_root()")
            lines.append(f"print('{c} @ {i}:', tree)")
        lines.append("# compare the printed expressions / evaluate them at a few assignments to see the violation")
        return "\n".join(lines) + "\n"
    if "ops" in case:
        lines = [HEAD, "p = ExpressionParser()", "last = None"]
        for op in case["ops"]:
            if op[0] == "parse":
                lines.append(f"try:\n    print('parse', {op[1]!r}, '->', p.parse({op[1]!r}))\nexcept Exception as e:\n    print('parse', {op[1]!r}, 'raises', type(e).__name__)")
            elif op[0] == "tokenize":
                lines.append(f"last = p.tokenize({op[1]!r}); print('tokenize', {op[1]!r}, '->', [(t.type, t.value) for t in last])")
            elif op[0] == "clear":
                lines.append("p.clear_cache()")
            elif op[0] == "new":
                lines.append("p = ExpressionParser()")
            elif op[0] == "consume":
                lines.append("while last: last.pop(0)")
            elif op[0] == "reverse":
                lines.append("last and last.reverse()")
            elif op[0] == "extend":
                lines.append("last is not None and last.append(last[-1])")
        lines.append("# a fresh ExpressionParser() must give the same answer for the last call")
        return "\n".join(lines) + "\n"
    if "texts" in case and isinstance(case["texts"], list) and prop in ("C10", "C12"):
        lines = [HEAD, "p = ExpressionParser()"]
        for t in case["texts"]:
            lines.append(f"try:\n    print('parse', {t!r}, '->', p.parse({t!r}))\nexcept Exception as e:\n    print('parse', {t!r}, 'raises', type(e).__name__, e)")
        lines.append("# compare the last line with ExpressionParser().parse(<same text>) on a fresh parser")
        return "\n".join(lines) + "\n"
    if "text" in case and prop in ("C03", "C04", "C10"):
        return HEAD + f"tree = ExpressionParser().parse({case['text']!r})\nprint(tree, '| evaluates to', tree.evaluate({{'x': 2, 'y': 3, 'z': 5, 'w': 7}}))\n" \
            + "print('re-parsed:', ExpressionParser().parse(str(tree)))\n"
    if "shape" in case:
        return ("import sys; sys.path.insert(0, '/repo'); sys.path.insert(0, '/verif')\nfrom mc.gen import shapes as S\n"
                "from mathy_core.tree import BinaryTreeNode\nfrom mathy_core.layout import TreeLayout\n"
                f"root = S.build(S.parse({case['shape']!r}), BinaryTreeNode)\n"
                "m = TreeLayout().layout(root)\nprint([(n.id, n.x, n.y) for n in S.preorder(root)], vars(m))\n")
    return None
