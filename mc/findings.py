"""Known findings: genuine defects of the pinned tree that are recorded, not repaired.

/verif/known_findings.json is committed and never written at run time.

  {"findings": [{"property": "C18", "core": "<exact core string>" | "core_regex": "...",
                 "what": "<one line>", "witness": {<replay case>}}, ...],
   "fixed":    ["fixed: property=C03 <commit> <what failed>", ...]}

A violation is attributed to a finding only when its (shrunk) core matches the entry.
Entries under "fixed" suppress nothing.
"""
import json
import os
import re

PATH = os.path.join(os.path.dirname(os.path.dirname(os.path.abspath(__file__))), "known_findings.json")


def load(prop):
    if not os.path.exists(PATH):
        return []
    with open(PATH) as f:
        data = json.load(f)
    return [e for e in data.get("findings", []) if e.get("property") == prop]


def match(entries, core):
    for e in entries:
        if "core" in e and e["core"] == core:
            return e
        if "core_regex" in e and re.fullmatch(e["core_regex"], core):
            return e
    return None
