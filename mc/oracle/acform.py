"""O-ac: AC-canonical form - nested + and nested * are flattened into sorted multisets, everything else
stays positional; constants are compared by exact value (2 and 2.0 are the same number)."""
from fractions import Fraction


def _const(payload):
    tc, v = payload
    try:
        if tc in ("i", "ni"):
            return ("c", Fraction(int(v)))
        if tc in ("f", "nf"):
            f = float.fromhex(v)
            if f != f or f in (float("inf"), float("-inf")):
                return ("c", repr(f))
            return ("c", Fraction(f))
    except Exception:  # noqa
        pass
    return ("c", repr(payload))


def flatten(s, tag):
    if s is not None and s[0] == tag:
        return flatten(s[2], tag) + flatten(s[3], tag)
    return [s]


def ac(s):
    if s is None:
        return None
    tag, payload, ls, rs = s
    if tag == "c":
        return _const(payload)
    if tag == "v":
        return ("v", payload)
    if tag in ("+", "*"):
        items = sorted((ac(x) for x in flatten(s, tag)), key=repr)
        return (tag, tuple(items))
    if tag in ("neg", "!", "sgn", "abs"):
        return (tag, ac(ls if ls is not None else rs))
    return (tag, ac(ls), ac(rs))


def operands(s, tag):
    """in-order flattened operand signatures of a + or * chain"""
    return flatten(s, tag)
