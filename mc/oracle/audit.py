"""O-audit: structural soundness of a linked binary tree, by links only."""


def link_audit(root, max_nodes=100000):
    """Return a list of problems (empty = sound): parent/child consistency, root has no
    parent, no object reached twice."""
    probs = []
    if root is None:
        return ["root is None"]
    if root.parent is not None:
        probs.append("root.parent is not None")
    seen = set()
    stack = [root]
    while stack:
        n = stack.pop()
        if id(n) in seen:
            probs.append(f"node object reached twice: {getattr(n, 'id', '?')}")
            continue
        seen.add(id(n))
        if len(seen) > max_nodes:
            probs.append("too many nodes (cycle?)")
            break
        for side in ("left", "right"):
            c = getattr(n, side)
            if c is not None:
                if c.parent is not n:
                    probs.append(f"{side} child of {getattr(n, 'id', '?')} has another parent")
                stack.append(c)
    return probs


def count(root):
    k = 0
    stack = [root]
    seen = set()
    while stack:
        n = stack.pop()
        if n is None or id(n) in seen:
            continue
        seen.add(id(n))
        k += 1
        stack.append(n.left)
        stack.append(n.right)
    return k


def all_nodes(root):
    """Pre-order list of node objects by links (each object once)."""
    out = []
    seen = set()
    stack = [root]
    while stack:
        n = stack.pop()
        if n is None or id(n) in seen:
            continue
        seen.add(id(n))
        out.append(n)
        stack.append(n.right)
        stack.append(n.left)
    return out


def snapshot(nodes):
    """Observable state of a fixed list of node objects (identity of links, payload, flags)."""
    snap = []
    for n in nodes:
        classes = getattr(n, "classes", None)
        snap.append((
            id(n.left), id(n.right), id(n.parent),
            type(n).__name__,
            repr(getattr(n, "value", None)), type(getattr(n, "value", None)).__name__,
            getattr(n, "identifier", None),
            getattr(n, "id", None),
            getattr(n, "child_on_left", None),
            tuple(classes) if isinstance(classes, list) else classes,
            getattr(n, "_changed", None),
            getattr(n, "r_index", None),
        ))
    return snap


SNAP_FIELDS = ("left", "right", "parent", "class", "value", "value_type", "identifier", "id", "child_on_left",
               "classes", "_changed", "r_index")


def snapshot_diff(a, b):
    for i, (x, y) in enumerate(zip(a, b)):
        if x != y:
            fields = [SNAP_FIELDS[k] for k in range(len(x)) if x[k] != y[k]]
            return f"node #{i} (pre-order) changed fields {fields}"
    if len(a) != len(b):
        return "node count changed"
    return None
