"""O-audit: structural soundness of a linked binary tree, by links only."""


def link_audit(root, max_nodes=100000):
    """Return a list of problems (empty = sound): parent/child consistency, root has no
    parent, no object reached twice."""
    probs = []
    if root is None:
        return ["root is None"]
    if root.parent is not None:
        probs.append("root.parent is not None")
    seen = set()
    stack = [root]
    while stack:
        n = stack.pop()
        if id(n) in seen:
            probs.append(f"node object reached twice: {getattr(n, 'id', '?')}")
            continue
        seen.add(id(n))
        if len(seen) > max_nodes:
            probs.append("too many nodes (cycle?)")
            break
        for side in ("left", "right"):
            c = getattr(n, side)
            if c is not None:
                if c.parent is not n:
                    probs.append(f"{side} child of {getattr(n, 'id', '?')} has another parent")
                stack.append(c)
    return probs


def count(root):
    k = 0
    stack = [root]
    seen = set()
    while stack:
        n = stack.pop()
        if n is None or id(n) in seen:
            continue
        seen.add(id(n))
        k += 1
        stack.append(n.left)
        stack.append(n.right)
    return k
