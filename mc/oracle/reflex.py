"""O-lex: reference lexer, written from the property statement (not from tokenizer.py).

maximal runs of [0-9.] are constants; a maximal run of ASCII letters is one function token iff the
whole run is a registered function name, else one variable token per letter; one token per operator
character with the three documented aliases (en-dash -> '-', '[' -> '(', ']' -> ')'); blanks are
padding; anything else is unsupported (ValueError); exactly one end marker, last."""

DIGITS = "0123456789."
PAD = " \t\r\n"
OPS = {"+": "Plus", "-": "Minus", "–": "Minus", "*": "Multiply", "/": "Divide", "^": "Exponent",
       "!": "Factorial", "(": "OpenParen", "[": "OpenParen", ")": "CloseParen", "]": "CloseParen", "=": "Equal"}
NORM = {"–": "-", "[": "(", "]": ")"}
FUNCTIONS = ("sgn",)


class Unsupported(Exception):
    pass


def is_letter(c):
    return ("a" <= c <= "z") or ("A" <= c <= "Z")


def lex(text, keep_padding=False):
    """[(type_name, value)] ending with ('EOF', '')."""
    out = []
    i = 0
    n = len(text)
    while i < n:
        c = text[i]
        if c in DIGITS:
            j = i
            while j < n and text[j] in DIGITS:
                j += 1
            out.append(("Constant", text[i:j]))
            i = j
        elif is_letter(c):
            j = i
            while j < n and is_letter(text[j]):
                j += 1
            run = text[i:j]
            if run in FUNCTIONS:
                out.append(("Function", run))
            else:
                out.extend(("Variable", ch) for ch in run)
            i = j
        elif c in PAD:
            if keep_padding:
                out.append(("Pad", c))
            i += 1
        elif c in OPS:
            out.append((OPS[c], NORM.get(c, c)))
            i += 1
        else:
            raise Unsupported(c)
    out.append(("EOF", ""))
    return out


def normalise(text, keep_padding=True):
    s = "".join(NORM.get(c, c) for c in text)
    if not keep_padding:
        s = "".join(c for c in s if c not in PAD)
    return s
