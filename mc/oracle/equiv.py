"""O-equiv / O-eqn: 'denotes the same function' and 'same solution set' on a rational grid.

For the rational fragment (+ - * /, integer constant powers) per-variable degree bounds are
computed bottom-up; when the grid has more points per variable than
deg_i(p1 q2 - p2 q1) + deg_i q1 + deg_i q2, agreement at every commonly defined grid point
implies identity: P = (p1 q2 - p2 q1) q1 q2 vanishes on the whole product grid (at undefined
points q1 q2 = 0), a polynomial with deg_i(P) < |S_i| vanishing on S_1 x ... x S_n is zero,
and q1 q2 is not identically zero.  Outside the fragment the comparison is a strong test and is
reported as tested-only."""
import itertools
from fractions import Fraction as F

from . import exact
from .. import sig as SG

GRID = [F(2), F(3), F(-2), F(1, 2), F(5), F(-3), F(0), F(1), F(7), F(-1, 2), F(-1), F(3, 2),
        F(11), F(13), F(-5), F(1, 3), F(-7), F(5, 2), F(17), F(-2, 3), F(19), F(4), F(-4), F(6)]
MAX_POINTS = 300
REL_TOL = F(1, 10 ** 12)  # IEEE doubles carry ~1e-16 per operation; 1e-12 x scale leaves room for long chains only


def _const_int_value(s):
    """Exact value of a variable-free subtree if it is an integer, else None."""
    if SG.variables(s):
        return None
    v, st = exact.evaluate(s, {})
    if v is exact.UNDEF or v is exact.SKIP or st.inexact:
        return None
    if v.denominator != 1:
        return None
    return v.numerator


def degrees(s):
    """dict var -> (num_deg, den_deg) for the rational fragment, or None outside it."""
    if s is None:
        return None
    tag, payload, ls, rs = s
    if tag == "c":
        return {}
    if tag == "v":
        return {payload: (1, 0)}
    if not SG.variables(s):
        return {}
    if tag == "neg":
        return degrees(ls if ls is not None else rs)
    if tag in ("!", "sgn", "abs", "="):
        return None
    a = degrees(ls)
    if a is None:
        return None
    if tag == "^":
        k = _const_int_value(rs)
        if k is None or abs(k) > 64:
            return None
        out = {}
        for v, (n, d) in a.items():
            out[v] = (n * k, d * k) if k >= 0 else (d * -k, n * -k)
        return out
    b = degrees(rs)
    if b is None:
        return None
    out = {}
    for v in set(a) | set(b):
        n1, d1 = a.get(v, (0, 0))
        n2, d2 = b.get(v, (0, 0))
        if tag in ("+", "-"):
            out[v] = (max(n1 + d2, n2 + d1), d1 + d2)
        elif tag == "*":
            out[v] = (n1 + n2, d1 + d2)
        elif tag == "/":
            out[v] = (n1 + d2, d1 + n2)
        else:
            return None
    return out


def _needed(da, db, v):
    n1, d1 = da.get(v, (0, 0))
    n2, d2 = db.get(v, (0, 0))
    return max(n1 + d2, n2 + d1) + d1 + d2


def plan_grid(variables, da, db, min_pts=4):
    """Choose the evaluation points.  Returns (names, [point tuples], decided).

    Normally a full product grid with enough points per variable for the degree argument.  With
    many variables (product too large) a sparse deterministic design is used instead (base point,
    one-variable-at-a-time stars, a few diagonals) and the verdict is tested-only."""
    names = sorted(variables)
    decided = da is not None and db is not None
    per = {}
    for v in names:
        need = (_needed(da, db, v) + 1) if decided else 0
        if need > len(GRID):
            decided = False
            need = len(GRID)
        base = min_pts if len(names) <= 2 else (3 if len(names) == 3 else 2)
        per[v] = max(base, need)
    total = 1
    for v in names:
        total *= per[v]
    while total > MAX_POINTS and names:
        big = max(names, key=lambda x: per[x])
        if per[big] <= 2:
            break
        per[big] -= 1
        decided = False
        total = 1
        for v in names:
            total *= per[v]
    if total <= MAX_POINTS:
        return names, list(itertools.product(*[GRID[: per[v]] for v in names])), decided
    # sparse design
    n = len(names)
    pts = []
    base = tuple(GRID[i % 6] for i in range(n))
    pts.append(base)
    for i in range(n):
        for alt in (GRID[6], GRID[(i + 3) % 6], GRID[9]):
            p = list(base)
            if p[i] != alt:
                p[i] = alt
                pts.append(tuple(p))
    for j in range(1, 25):
        pts.append(tuple(GRID[(i * j + 2 * j + i) % 12] for i in range(n)))
    return names, list(dict.fromkeys(pts)), False


_EVAL_CACHE = {}


def eval_on(s, names, pts, track=True):
    """[(value, inexact, scale)] for every point; cached per (sig, point)."""
    key = (s, track, tuple(names))
    per = _EVAL_CACHE.get(key)
    if per is None:
        if len(_EVAL_CACHE) > 4000:
            _EVAL_CACHE.clear()
        per = _EVAL_CACHE[key] = {}
    out = []
    for combo in pts:
        hit = per.get(combo)
        if hit is None:
            st = exact.State(track)
            env = dict(zip(names, combo))
            val = exact.ev(s, env, st)
            if st.inexact and not track:
                # a tolerance will be used after all: the scale must be complete
                st = exact.State(True)
                val = exact.ev(s, env, st)
            hit = per[combo] = (val, st.inexact, st.scale)
        out.append(hit)
    return out


class Verdict:
    __slots__ = ("same", "decided", "npoints", "common", "witness", "note")

    def __init__(self):
        self.same = True
        self.decided = False
        self.npoints = 0
        self.common = 0
        self.witness = None
        self.note = ""


def close(a, b, floaty, scale):
    if not floaty:
        return a == b
    tol = REL_TOL * max(F(1), scale)
    return abs(a - b) <= tol


def close_at(a, b, floaty, sa, sb, env):
    """a, b: exact values of the two signatures at env.  Without floats: equality.  With floats: equal, or the
    difference is within SLACK x the propagated rounding bounds of the two trees (exact.ev_err)."""
    if a == b:
        return True
    if not floaty:
        return False
    va, ea = exact.ev_err(sa, env)
    vb, eb = exact.ev_err(sb, env)
    if ea is None or eb is None or va in (exact.UNDEF, exact.SKIP) or vb in (exact.UNDEF, exact.SKIP):
        return True  # no usable bound at this point: not judged
    return abs(a - b) <= exact.SLACK * (ea + eb) + F(1, 10 ** 300)


def same_function(sa, sb):
    """Compare two non-equation signatures as functions of their variables."""
    va, vb = SG.variables(sa), SG.variables(sb)
    allv = va | vb
    da, db = degrees(sa), degrees(sb)
    names, pts, decided = plan_grid(allv, da, db)
    floaty_c = SG.has_float(sa) or SG.has_float(sb)
    ra, rb = eval_on(sa, names, pts, floaty_c), eval_on(sb, names, pts, floaty_c)
    vd = Verdict()
    vd.decided = decided
    for i, ((a, ia, sca), (b, ib, scb)) in enumerate(zip(ra, rb)):
        vd.npoints += 1
        if a is exact.UNDEF or b is exact.UNDEF:
            continue
        if a is exact.SKIP or b is exact.SKIP:
            vd.decided = False
            continue
        vd.common += 1
        if not close_at(a, b, floaty_c or ia or ib, sa, sb, dict(zip(names, pts[i]))):
            vd.same = False
            vd.witness = {"at": {k: str(x) for k, x in zip(names, pts[i])}, "before": str(a), "after": str(b)}
            return vd
    if vd.common == 0:
        vd.decided = False
        vd.note = "no commonly defined grid point"
    return vd


def _diff(s):
    """difference function L - R of an equation signature."""
    return ("-", None, s[2], s[3])


def same_solutions(sa, sb):
    """Compare two equation signatures: same solution set wherever both are defined.

    tier 1: D2 == k * D1 on the grid for one non-zero constant k  => equivalent
    tier 2: otherwise compare the zero sets on the grid points; a commonly defined point where
            exactly one of D1, D2 vanishes is a counterexample; none found => undecided."""
    vd = Verdict()
    if sa[0] != "=" or sb[0] != "=":
        vd.same = False
        vd.witness = {"problem": "not an equation", "before": sa[0], "after": sb[0]}
        vd.decided = True
        return vd
    d1, d2 = _diff(sa), _diff(sb)
    allv = SG.variables(sa) | SG.variables(sb)
    da, db = degrees(d1), degrees(d2)
    names, pts, decided = plan_grid(allv, da, db, min_pts=6)
    floaty_c = SG.has_float(sa) or SG.has_float(sb)
    r1, r2 = eval_on(d1, names, pts, floaty_c), eval_on(d2, names, pts, floaty_c)
    vd.decided = decided
    k = None
    krel = F(0)
    proportional = True
    mismatch = None
    for i, ((a, ia, sca), (b, ib, scb)) in enumerate(zip(r1, r2)):
        vd.npoints += 1
        if a is exact.UNDEF or b is exact.UNDEF:
            continue
        if a is exact.SKIP or b is exact.SKIP:
            vd.decided = False
            continue
        vd.common += 1
        fl = floaty_c or ia or ib
        if not fl:
            za, zb = (a == 0), (b == 0)
            rel = F(0)
        else:
            # zero-ness and proportionality are judged against propagated rounding bounds (exact.ev_err)
            env = dict(zip(names, pts[i]))
            _, ea = exact.ev_err(d1, env)
            _, eb = exact.ev_err(d2, env)
            if ea is None or eb is None:
                continue
            ta, tb = exact.SLACK * ea, exact.SLACK * eb
            za, zb = abs(a) <= ta, abs(b) <= tb
            if za != zb:
                # only a clear case counts: the non-zero side must be far outside its own rounding bound
                clear = (abs(b) > 1000 * tb + F(1, 10 ** 300)) if za else (abs(a) > 1000 * ta + F(1, 10 ** 300))
                if not clear:
                    continue
            rel = F(0)
            if not za and not zb:
                rel = exact.SLACK * (ea / abs(a) + eb / abs(b))
        if za != zb:
            if mismatch is None:
                mismatch = (i, a, b)
            proportional = False
            continue
        if za and zb:
            continue
        ratio = b / a
        if k is None:
            k = ratio
            krel = rel
        elif abs(ratio - k) > (rel + krel) * abs(k):
            proportional = False
    if mismatch is not None:
        i, a, b = mismatch
        vd.same = False
        vd.witness = {"at": {kk: str(x) for kk, x in zip(names, pts[i])},
                      "before_L_minus_R": str(a), "after_L_minus_R": str(b)}
        return vd
    if vd.common == 0:
        vd.decided = False
        vd.note = "no commonly defined grid point"
        return vd
    if proportional:
        vd.note = "proportional" if k is not None else "both identities on the grid"
        return vd
    # zero sets agree on the grid but the difference functions are not proportional.
    # One variable, both differences affine (degree bound 1, no denominator): the solution sets are computed
    # exactly - {-b/a}, everything, or nothing - and compared.
    if len(names) == 1 and da is not None and db is not None:
        v = names[0]
        if da.get(v, (0, 0))[0] <= 1 and da.get(v, (0, 0))[1] == 0 and db.get(v, (0, 0))[0] <= 1 and db.get(v, (0, 0))[1] == 0:
            def affine(rows):
                good = [(p[0], r[0]) for p, r in zip(pts, rows) if r[0] is not exact.UNDEF and r[0] is not exact.SKIP]
                if len(good) < 2:
                    return None
                (x0, y0), (x1, y1) = good[0], good[1]
                a = (y1 - y0) / (x1 - x0)
                return a, y0 - a * x0

            l1, l2 = affine(r1), affine(r2)
            if l1 is not None and l2 is not None:
                def solset(l):
                    a, b = l
                    if a != 0:
                        return ("point", -b / a)
                    return ("all",) if b == 0 else ("none",)

                s1, s2 = solset(l1), solset(l2)
                same = s1 == s2
                if not same and s1[0] == "point" and s2[0] == "point" and floaty_c:
                    same = abs(s1[1] - s2[1]) <= REL_TOL * max(F(1), abs(s1[1]), abs(s2[1]))
                vd.decided = True
                if not same:
                    vd.same = False
                    vd.witness = {"linear_solution_sets": [str(s1), str(s2)]}
                else:
                    vd.note = "linear: identical solution sets"
                return vd
    vd.decided = False
    vd.note = "undecided: zero sets agree on the grid, differences not proportional"
    return vd


def defined_on(s, names, pts):
    """For an equation or expression signature: [bool] 'defined at point i' (SKIP counts as defined)."""
    if s[0] == "=":
        l, r = eval_on(s[2], names, pts), eval_on(s[3], names, pts)
        return [(a[0] is not exact.UNDEF) and (b[0] is not exact.UNDEF) for a, b in zip(l, r)]
    return [a[0] is not exact.UNDEF for a in eval_on(s, names, pts)]
