"""O-gram: reference grammar + semantics, a direct transcription of the EBNF in the
ExpressionParser docstring with greedy { }? / { }* (the conventional deterministic reading),
extended by exactly what the property statement adds:
  * factorial of a literal:            FactorPrefix = Constant "!" | Constant {Factor}? | Factor
  * a minus directly before a literal makes a negative literal
  * an exponent after a run of factors binds to the last factor only
  * the { }* iterations of + - and * / fold left to right (order of operations)

It consumes reference tokens (mc.oracle.reflex) and produces a *reference signature* whose value
(not shape) is compared with the implementation's tree."""


class Reject(Exception):
    pass


def _c(text):
    """constant literal -> signature payload with the numeric class the text denotes"""
    try:
        if "." in text or "e" in text:
            v = float(text)
            return ("c", ("f", v.hex()), None, None)
        return ("c", ("i", str(int(text))), None, None)
    except ValueError:
        raise Reject(f"malformed number {text!r}")


def _neg_const(s):
    tc, v = s[1]
    if tc == "i":
        return ("c", ("i", str(-int(v))), None, None)
    return ("c", ("f", (-float.fromhex(v)).hex()), None, None)


def _bin(op, a, b):
    return (op, None, a, b)


class P:
    def __init__(self, tokens):
        self.t = tokens
        self.i = 0

    def peek(self):
        return self.t[self.i][0]

    def take(self, kind=None):
        tok = self.t[self.i]
        if kind is not None and tok[0] != kind:
            raise Reject(f"expected {kind}, got {tok[0]}")
        if tok[0] == "EOF" and kind != "EOF":
            raise Reject("out of tokens")
        self.i += 1
        return tok

    # (start) = (EqualExp)
    def start(self):
        e = self.equal()
        if self.peek() != "EOF":
            raise Reject("trailing tokens")
        return e

    def equal(self):
        e = self.add()
        while self.peek() == "Equal":
            self.take()
            e = _bin("=", e, self.add())
        return e

    def add(self):
        e = self.mult()
        while self.peek() in ("Plus", "Minus"):
            op = self.take()[0]
            r = self.mult()
            e = _bin("+" if op == "Plus" else "-", e, r)
        return e

    def mult(self):
        e = self.exp()
        while self.peek() in ("Multiply", "Divide"):
            op = self.take()[0]
            r = self.exp()
            e = _bin("*" if op == "Multiply" else "/", e, r)
        return e

    def exp(self):
        e = self.unary()
        if self.peek() == "Exponent":
            self.take()
            e = _bin("^", e, self.unary())
        return e

    FIRST_FACTOR = ("Variable", "Function", "OpenParen")

    def unary(self):
        neg = False
        if self.peek() == "Minus":
            self.take()
            neg = True
        k = self.peek()
        if k == "Constant":
            c = _c(self.take()[1])
            if neg:
                c = _neg_const(c)  # a minus directly before a literal makes a negative literal
                neg = False
            if self.peek() == "Factorial":
                self.take()
                e = ("!", False, None, c)
            elif self.peek() in self.FIRST_FACTOR:
                e = _bin("*", c, self.factor())
            else:
                e = c
        elif k in self.FIRST_FACTOR:
            e = self.factor()
        else:
            raise Reject(f"expected a factor, got {k}")
        if neg:
            e = ("neg", False, None, e)
        return e

    def factor(self):
        items = []
        while self.peek() in self.FIRST_FACTOR:
            k = self.peek()
            if k == "Variable":
                items.append(("v", self.take()[1], None, None))
            elif k == "Function":
                name = self.take()[1]
                self.take("OpenParen")
                inner = self.add()
                self.take("CloseParen")
                items.append((name, False, None, inner))
            else:
                self.take("OpenParen")
                inner = self.add()
                self.take("CloseParen")
                items.append(inner)
        if not items:
            raise Reject("no factors")
        if self.peek() == "Exponent":
            self.take()
            items[-1] = _bin("^", items[-1], self.unary())  # binds to the last factor only
        e = items[0]
        for it in items[1:]:
            e = _bin("*", e, it)
        return e


def parse(tokens):
    """reference signature for a reference token list, or raises Reject"""
    toks = [t for t in tokens if t[0] != "Pad"]
    if len(toks) <= 1:
        raise Reject("empty")
    return P(toks).start()
