"""O-exact: independent exact evaluator over signatures (never calls the repo's evaluate).

Values are fractions.Fraction; UNDEF is the undefined value (division by zero, 0 to a
negative power, negative base to a non-integer power, factorial of a non-natural, non-finite
constants).  SKIP marks points the oracle refuses to judge (astronomically large powers)."""
import math
from fractions import Fraction


class _Mark:
    def __init__(self, name):
        self.name = name

    def __repr__(self):
        return self.name


UNDEF = _Mark("UNDEF")
SKIP = _Mark("SKIP")

MAX_BITS = 6000
NEAR = Fraction(1, 10 ** 9)  # discontinuity guard: wider than the comparison tolerance on purpose


class State:
    __slots__ = ("inexact", "scale", "track")

    def __init__(self, track=True):
        self.inexact = False
        self.scale = Fraction(0)
        self.track = track  # scale is only needed when a tolerance will be used


def _const(payload, st):
    tc, s = payload
    if tc in ("i", "ni"):
        return Fraction(int(s))
    if tc in ("f", "nf"):
        v = float.fromhex(s)
        if math.isnan(v) or math.isinf(v):
            return UNDEF
        return Fraction(v)
    return UNDEF


def _pow(b, e, st):
    if e.denominator == 1:
        k = e.numerator
        if b == 0:
            if k < 0:
                return UNDEF
            return Fraction(1) if k == 0 else Fraction(0)
        if b == 1:
            return Fraction(1)
        if b == -1:
            return Fraction(1 if k % 2 == 0 else -1)
        bits = max(b.numerator.bit_length(), b.denominator.bit_length())
        if bits * abs(k) > MAX_BITS:
            return SKIP
        return b ** k
    if b < 0:
        return UNDEF
    if b == 0:
        return Fraction(0) if e > 0 else UNDEF
    try:
        r = float(b) ** float(e)
    except OverflowError:
        return SKIP
    if math.isinf(r) or math.isnan(r):
        return SKIP
    st.inexact = True
    return Fraction(r)


def ev(s, env, st):
    """Evaluate signature s at env (dict var -> Fraction)."""
    if s is None:
        return UNDEF
    tag, payload, ls, rs = s
    if tag == "c":
        r = _const(payload, st)
    elif tag == "v":
        r = env.get(payload, UNDEF)
    elif tag in ("neg", "!", "sgn", "abs"):
        a = ev(ls if ls is not None else rs, env, st)
        if a is UNDEF or a is SKIP:
            return a
        if tag == "neg":
            r = -a
        elif tag == "abs":
            r = abs(a)
        elif tag == "sgn":
            # sgn is discontinuous at 0: when rounding is in play (float constants, inexact powers) an argument
            # within the rounding tolerance of 0 has no trustworthy sign - the point is not judged
            if (st.track or st.inexact) and abs(a) <= NEAR * max(Fraction(1), st.scale):
                return SKIP
            r = Fraction((a > 0) - (a < 0))
        else:
            if (st.track or st.inexact) and a.denominator != 1:
                near = round(a)
                if abs(a - near) <= NEAR * max(Fraction(1), st.scale):
                    return SKIP  # factorial of something within rounding of an integer: not judged
            if a.denominator != 1 or a < 0:
                return UNDEF
            if a > 300:
                return SKIP
            r = Fraction(math.factorial(a.numerator))
    else:
        a = ev(ls, env, st)
        if a is UNDEF:
            return UNDEF
        b = ev(rs, env, st)
        if b is UNDEF:
            return UNDEF
        if a is SKIP or b is SKIP:
            return SKIP
        if tag == "+":
            r = a + b
        elif tag == "-":
            r = a - b
        elif tag == "*":
            r = a * b
        elif tag == "/":
            if b == 0:
                return UNDEF
            r = a / b
        elif tag == "^":
            r = _pow(a, b, st)
            if r is UNDEF or r is SKIP:
                return r
        elif tag == "=":
            # an equation has no value of its own here; callers compare the sides
            return UNDEF
        else:
            return UNDEF
    if r is UNDEF or r is SKIP:
        return r
    if st.track or st.inexact:
        m = abs(r)
        if m > st.scale:
            st.scale = m
    if r.numerator.bit_length() > MAX_BITS or r.denominator.bit_length() > MAX_BITS:
        return SKIP
    return r


def evaluate(s, env=None):
    """Convenience: (value, State)."""
    st = State()
    return ev(s, env or {}, st), st
