"""O-exact: independent exact evaluator over signatures (never calls the repo's evaluate).

Values are fractions.Fraction; UNDEF is the undefined value (division by zero, 0 to a
negative power, negative base to a non-integer power, factorial of a non-natural, non-finite
constants).  SKIP marks points the oracle refuses to judge (astronomically large powers)."""
import math
from fractions import Fraction


class _Mark:
    def __init__(self, name):
        self.name = name

    def __repr__(self):
        return self.name


UNDEF = _Mark("UNDEF")
SKIP = _Mark("SKIP")

MAX_BITS = 6000
NEAR = Fraction(1, 10 ** 9)  # discontinuity guard: wider than the comparison tolerance on purpose


class State:
    __slots__ = ("inexact", "scale", "track")

    def __init__(self, track=True):
        self.inexact = False
        self.scale = Fraction(0)
        self.track = track  # scale is only needed when a tolerance will be used


def _const(payload, st):
    tc, s = payload
    if tc in ("i", "ni"):
        return Fraction(int(s))
    if tc in ("f", "nf"):
        v = float.fromhex(s)
        if math.isnan(v) or math.isinf(v):
            return UNDEF
        return Fraction(v)
    return UNDEF


def _pow(b, e, st):
    if e.denominator == 1:
        k = e.numerator
        if b == 0:
            if k < 0:
                return UNDEF
            return Fraction(1) if k == 0 else Fraction(0)
        if b == 1:
            return Fraction(1)
        if b == -1:
            return Fraction(1 if k % 2 == 0 else -1)
        bits = max(b.numerator.bit_length(), b.denominator.bit_length())
        if bits * abs(k) > MAX_BITS:
            return SKIP
        return b ** k
    if b < 0:
        return UNDEF
    if b == 0:
        return Fraction(0) if e > 0 else UNDEF
    try:
        r = float(b) ** float(e)
    except OverflowError:
        return SKIP
    if math.isinf(r) or math.isnan(r):
        return SKIP
    st.inexact = True
    return Fraction(r)


def ev(s, env, st):
    """Evaluate signature s at env (dict var -> Fraction)."""
    if s is None:
        return UNDEF
    tag, payload, ls, rs = s
    if tag == "c":
        r = _const(payload, st)
    elif tag == "v":
        r = env.get(payload, UNDEF)
    elif tag in ("neg", "!", "sgn", "abs"):
        a = ev(ls if ls is not None else rs, env, st)
        if a is UNDEF or a is SKIP:
            return a
        if tag == "neg":
            r = -a
        elif tag == "abs":
            r = abs(a)
        elif tag == "sgn":
            # sgn is discontinuous at 0: when rounding is in play (float constants, inexact powers) an argument
            # within the rounding tolerance of 0 has no trustworthy sign - the point is not judged
            if (st.track or st.inexact) and abs(a) <= NEAR * max(Fraction(1), st.scale):
                return SKIP
            r = Fraction((a > 0) - (a < 0))
        else:
            if (st.track or st.inexact) and a.denominator != 1:
                near = round(a)
                if abs(a - near) <= NEAR * max(Fraction(1), st.scale):
                    return SKIP  # factorial of something within rounding of an integer: not judged
            if a.denominator != 1 or a < 0:
                return UNDEF
            if a > 300:
                return SKIP
            r = Fraction(math.factorial(a.numerator))
    else:
        a = ev(ls, env, st)
        if a is UNDEF:
            return UNDEF
        b = ev(rs, env, st)
        if b is UNDEF:
            return UNDEF
        if a is SKIP or b is SKIP:
            return SKIP
        if tag == "+":
            r = a + b
        elif tag == "-":
            r = a - b
        elif tag == "*":
            r = a * b
        elif tag == "/":
            if b == 0:
                return UNDEF
            r = a / b
        elif tag == "^":
            r = _pow(a, b, st)
            if r is UNDEF or r is SKIP:
                return r
        elif tag == "=":
            # an equation has no value of its own here; callers compare the sides
            return UNDEF
        else:
            return UNDEF
    if r is UNDEF or r is SKIP:
        return r
    if st.track or st.inexact:
        m = abs(r)
        if m > st.scale:
            st.scale = m
    if r.numerator.bit_length() > MAX_BITS or r.denominator.bit_length() > MAX_BITS:
        return SKIP
    return r


def evaluate(s, env=None):
    """Convenience: (value, State)."""
    st = State()
    return ev(s, env or {}, st), st


# ---- running error analysis --------------------------------------------------------------------------------
# When float constants are in play the two trees are compared with a tolerance derived from a forward error
# bound instead of a fixed relative tolerance: every float constant is given the uncertainty of a few rounded
# operations (it may be the result of folding), and the bound is propagated through the operations.  A
# difference larger than SLACK x (bound of one tree + bound of the other) is not floating-point rounding.

EPS = Fraction(1, 2 ** 52)
U = 4 * EPS
SLACK = 64
HUGE_ERR = None  # marks 'no usable bound'


def ev_err(s, env):
    """(value, error bound) with the conventions of ev(); value may be UNDEF / SKIP (bound then None)"""
    if s is None:
        return UNDEF, None
    tag, payload, ls, rs = s
    if tag == "c":
        st = State(False)
        v = _const(payload, st)
        if v is UNDEF:
            return UNDEF, None
        return v, (abs(v) * U if payload[0] in ("f", "nf") else Fraction(0))
    if tag == "v":
        v = env.get(payload, UNDEF)
        return v, (Fraction(0) if v is not UNDEF else None)
    if tag in ("neg", "!", "sgn", "abs"):
        a, ea = ev_err(ls if ls is not None else rs, env)
        if a is UNDEF or a is SKIP:
            return a, None
        if ea is None:
            return SKIP, None
        if tag == "neg":
            return -a, ea
        if tag == "abs":
            return abs(a), ea
        if tag == "sgn":
            if abs(a) <= ea * SLACK or (ea > 0 and abs(a) <= NEAR):
                return SKIP, None
            return Fraction((a > 0) - (a < 0)), Fraction(0)
        if ea > 0 and a.denominator != 1:
            return SKIP, None
        if a.denominator != 1 or a < 0:
            return UNDEF, None
        if a > 300:
            return SKIP, None
        return Fraction(math.factorial(a.numerator)), Fraction(0)
    a, ea = ev_err(ls, env)
    if a is UNDEF:
        return UNDEF, None
    b, eb = ev_err(rs, env)
    if b is UNDEF:
        return UNDEF, None
    if a is SKIP or b is SKIP or ea is None or eb is None:
        return SKIP, None
    fl = (ea > 0 or eb > 0)
    if tag == "+":
        r = a + b
        return r, ea + eb + (abs(r) * EPS if fl else 0)
    if tag == "-":
        r = a - b
        return r, ea + eb + (abs(r) * EPS if fl else 0)
    if tag == "*":
        r = a * b
        return r, abs(a) * eb + abs(b) * ea + ea * eb + (abs(r) * EPS if fl else 0)
    if tag == "/":
        if b == 0:
            return UNDEF, None
        if abs(b) <= eb * SLACK:
            return SKIP, None  # the divisor is within rounding of zero: not judged
        r = a / b
        return r, (ea + abs(r) * eb) / (abs(b) - eb) + abs(r) * EPS
    if tag == "^":
        st = State(True)
        r = _pow(a, b, st)
        if r is UNDEF or r is SKIP:
            return r, None
        if b.denominator == 1 and eb == 0:
            k = abs(b.numerator)
            if ea == 0:
                return r, (abs(r) * EPS if b.numerator < 0 else Fraction(0))
            if a == 0:
                return r, ea ** max(k, 1)
            # first-order bound with a factor 2 for the higher-order terms
            return r, 2 * k * abs(r) * ea / abs(a) + abs(r) * EPS
        # non-integer or uncertain exponent: libm-level accuracy, generous relative bound
        rel = Fraction(1, 10 ** 9)
        if a != 0:
            rel += (abs(b) + 1) * ea / abs(a) * 4
        if eb > 0 and a > 0:
            rel += eb * Fraction(abs(math.log(float(a))) + 1) * 4
        return r, abs(r) * rel
    return UNDEF, None
