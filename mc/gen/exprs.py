"""E-expr: expression texts for start states.

Every start state is `ExpressionParser().parse(text)` of a generated text, so it is
'obtainable from the parser' by construction.  Families:

 uniform(k)  : all fully parenthesised trees with <= k nodes over {+,-,*,/,^,neg,sgn,!} and a
               small leaf alphabet (classes the code distinguishes: sign, zero, unit, fraction)
 termsums    : sums / differences / products / quotients of <= n natural-order terms under
               every grouping (one input per shortcut visible in the rules' classifiers)
 equations   : L = R with term-structured sides, plus the ancestor-context family for the
               balanced move
 repo        : every `input` of the repository's own rules/*.test.json
"""
import glob
import itertools
import json
import os
from functools import lru_cache

LEAVES_Q = ["2", "3", "-3", "0.5", "0", "1", "x", "y"]
LEAVES_SMALL = ["2", "-3", "x", "y"]
BIN = ["+", "-", "*", "/", "^"]


@lru_cache(maxsize=None)
def _uniform(n, leaves, ops, unary):
    """texts of fully parenthesised expressions with exactly n nodes."""
    if n <= 0:
        return ()
    out = []
    if n == 1:
        return tuple(leaves)
    if unary:
        for inner in _uniform(n - 1, leaves, ops, unary):
            out.append(f"-({inner})")
            out.append(f"sgn({inner})")
        if n == 2:
            for c in leaves:
                if c[0].isdigit():
                    out.append(f"{c}!")
    for k in range(1, n - 1):
        for a in _uniform(k, leaves, ops, unary):
            for b in _uniform(n - 1 - k, leaves, ops, unary):
                for op in ops:
                    out.append(f"({a} {op} {b})")
    return tuple(out)


def uniform(max_nodes, leaves=LEAVES_Q, ops=BIN, unary=True):
    out = []
    for n in range(1, max_nodes + 1):
        out.extend(_uniform(n, tuple(leaves), tuple(ops), unary))
    return out


def uniform_exact(n, leaves=LEAVES_SMALL, ops=BIN, unary=True):
    return list(_uniform(n, tuple(leaves), tuple(ops), unary))


# ---- term-structured -------------------------------------------------------------------

TERMS_Q = ["2", "4", "-3", "0.5", "x", "y", "2x", "4x", "-3x", "-x", "x^2", "2x^2", "4y", "0.5x^2"]
TERMS_T = TERMS_Q + ["0", "1", "x^0", "0x", "1x", "x^-1", "x^0.5", "-x^2", "3y^2", "-1x", "12", "1.5x", "2.0x", "x^2.0", "6x^2"]
OPS_TERM = ["+", "-", "*", "/"]


def groupings(items, ops_choices):
    """All full parenthesisations of items with every choice of operators; yields text.
    The top level is left unparenthesised so that natural (parser) association is also used."""

    def rec(lo, hi):
        if hi - lo == 1:
            return [items[lo]]
        out = []
        for mid in range(lo + 1, hi):
            for a in rec(lo, mid):
                for b in rec(mid, hi):
                    for op in ops_choices:
                        out.append(f"({a} {op} {b})")
        return out

    return rec(0, len(items))


def termsums(nterms, terms=TERMS_Q, ops=OPS_TERM):
    out = []
    for n in range(2, nterms + 1):
        for combo in itertools.product(terms, repeat=n):
            out.extend(groupings(list(combo), ops))
    return out


CHAIN_TERMS = ["2", "-3", "x", "4x", "x^2", "2y^3", "0.5x"]


def same_op_groupings(nterms, terms=CHAIN_TERMS, ops=("+", "*")):
    """every grouping of n terms joined by one operator throughout (a + (b + (c + d)), ((a * b) * c) * d, ...):
    the chained positions the rules' classifiers look for (chained_right_deep, chained_left_right, ...)."""
    out = []
    for combo in itertools.product(terms, repeat=nterms):
        for op in ops:
            out.extend(groupings(list(combo), [op]))
    return out


def unary_wrapped_groupings():
    """same-operator groupings directly under a one-operand node (regrouping there re-links the operand of the
    negation / function)"""
    out = []
    for g in same_op_groupings(3, ["2", "x", "y", "3x"]):
        out += [f"-({g})", f"sgn({g})", f"-({g}) + 1", f"2 * sgn({g})", f"w - -({g})"]
    return out


CASE_TWINS = ["2x + 3X", "x * X", "x^2 + X^2", "4 + 2x + 6X", "(x + X) * x", "x - X + X", "3x * 2X", "X + x + X", "2x + 3X = 12", "x * X = 4",
              "x + X = 3", "2X = 4 + x"]


def sign_twins():
    """the same large magnitude with both signs, in this order (negative first), then the other way round with
    another variable: anything remembered per magnitude shows"""
    out = []
    for m in ("10000", "20000", "12345.5", "65536", "1000003"):
        out += [f"-{m}x + 5x", f"{m}x + 5x", f"-{m} + 50000", f"{m} + 50000"]
    for m in ("30000", "17.25", "40000"):
        out += [f"{m}y + 5y", f"-{m}y + 5y", f"4 + {m}k + -{m}k"]
    return out


def product_equations():
    """left- and right-grouped products of coefficient terms on one side of an equation"""
    out = []
    for g in same_op_groupings(3, ["a", "2u", "3u", "u^2"], ("*",)):
        out += [f"{g} = 12", f"12 = {g}"]
    return out


def deep_chains():
    """five- and six-term same-operator groupings over tiny alphabets: nesting depth up to 5 for the chained
    classifiers (a group nested three or more levels deep)"""
    return same_op_groupings(5, ["x", "2x", "3"]) + same_op_groupings(6, ["x", "2"])


def power_nests():
    """implicit products, negations and powers nested in base and exponent positions (printer / parser
    interplay needs variable exponents and depth 4)"""
    atoms = ["2", "x", "2x", "-x", "x^y", "2x^y", "2x^2", "(x + 1)", "-2", "y"]
    out = []
    for a, b in itertools.product(atoms, atoms):
        out.append(f"({a})^({b})")
    for a, b, c in itertools.product(atoms, atoms[:8], atoms[:8]):
        out.append(f"(({a})^({b}))^({c})")
        out.append(f"({a})^(({b})^({c}))")
    return out


FOLD_MAGNITUDES = ["(0.00000002 / 3) * x", "0.000000015 / 7 + x", "x * (2 / 300000000)", "y / (0.00000000000000004 * 0.5 * x) + 1",
                   "(1 / 3000000000) * x + 1", "5000000001 / 2 + x", "x + 5000000001 / 2", "3 * 333333333.5 + x", "1000000001 * 0.5 + x", "x * (10000000001 / 4)",
                   "x = 5000000001 / 2", "2x = 5000000001", "x + 1 = 1000000001 * 0.5", "7000000001 / 2 * x = 3"]


def flat_chains(nterms, terms, ops=("+", "*")):
    """Unparenthesised chains a op b op c ... (natural association of the parser)."""
    out = []
    for n in range(2, nterms + 1):
        for combo in itertools.product(terms, repeat=n):
            for oc in itertools.product(ops, repeat=n - 1):
                s = combo[0]
                for o, t in zip(oc, combo[1:]):
                    s += f" {o} {t}"
                out.append(s)
    return out


# ---- equations ---------------------------------------------------------------------------

EQ_TERMS = ["2", "-3", "0", "x", "2x", "0x", "-x", "x^2", "3y", "0.5x"]
CTX_CANDIDATES = ["2", "0", "x", "3x", "0x", "x^2", "2x^2", "-x"]
CTX_OTHER = "y"


def equations(terms=EQ_TERMS, ops=("+", "-", "*", "/")):
    """L = R with one- and two-term sides."""
    sides = list(terms)
    for a, b in itertools.product(terms, repeat=2):
        for op in ops:
            sides.append(f"{a} {op} {b}")
    out = []
    small = list(terms)
    for L in sides:
        for R in small:
            out.append(f"{L} = {R}")
            if L not in small:
                out.append(f"{R} = {L}")
    return out


def equations3(terms=("2", "x", "3x", "-x", "x^2", "0x"), ops=("+", "-", "*")):
    out = []
    for combo in itertools.product(terms, repeat=3):
        for g in groupings(list(combo), ops):
            for R in ("3", "x", "2x"):
                out.append(f"{g} = {R}")
                out.append(f"{R} = {g}")
    return out


def contexts(max_depth=2, candidates=CTX_CANDIDATES):
    """Place `cand + k` / `k + cand` / bare cand under every chain of <= max_depth ancestors on
    either side of '=' (the balanced move decides from ancestor kinds: enumerate them all)."""
    wrappers = [
        "({h} + w)", "(w + {h})", "({h} - w)", "(w - {h})", "({h} * w)", "(w * {h})",
        "({h} / w)", "(w / {h})", "({h})^2", "2^({h})", "-({h})", "sgn({h})",
    ]
    holes = []
    for c in candidates:
        holes.append(f"({c} + {CTX_OTHER})")
        holes.append(f"({CTX_OTHER} + {c})")
        holes.append(f"({c} * {CTX_OTHER})")
        holes.append(f"({c} - {CTX_OTHER})")
    for c in candidates[:5]:
        # three-addend chains: the moved term sits two additions below the wrapper
        holes.append(f"(2 + {c} + {CTX_OTHER})")
        holes.append(f"({CTX_OTHER} + (2 + {c}))")
    out = []

    def rec(h, d):
        yield h
        if d == 0:
            return
        for w in wrappers:
            yield from rec(w.format(h=h), d - 1)

    for h in holes:
        for side in rec(h, max_depth):
            out.append(f"{side} = 3")
            out.append(f"3 = {side}")
            out.append(f"{side} = x")
    return out


DECIMALS = ["0.00002", "0.00001", "0.000000015", "0.002", "0.003", "123456789.125", "1234567.891", "0.1", "0.2",
            "100000000000000000000.5", "0.30000000000000004", "4503599627370497.5"]
BIG_INTS = ["9007199254740993", "12157665459056928801", "123456789012345678901234567890", "1152921504606846977"]


def magnitude_texts_static():
    """constants at the edges of the number formats (tiny / long decimals, integers beyond 2**53) in every
    leaf position a printer treats differently.  Printed and re-parsed only - never handed to the rules
    (factor() of a 20-digit number loops for hours, which no property forbids)."""
    out = []
    long_digits = "1234567890" * 7 + "123"
    for d in DECIMALS + BIG_INTS + [long_digits, "0." + "0" * 66 + "1"]:
        out += [d, f"{d}x", f"x + {d}", f"{d} + x", f"x - {d}", f"x * {d}", f"x / {d}", f"-{d}", f"{d}x^2 + 3", f"{d} * y + x",
                f"({d} + x)^2", f"x = {d}", f"{d}x = 3", f"x^{d}", f"sgn({d})"]
    return out


def magnitude_texts_fold():
    """small expressions whose one-step rewrites (constant folding above all) CREATE extreme constants"""
    out = []
    for a, b in itertools.product(DECIMALS[:6], DECIMALS[:6]):
        out += [f"{a} * {b} * x", f"{a} * {b}", f"x * ({a} / {b})", f"{a} - {b}", f"x^({a} * {b})"]
    out += ["2^216 + x", "7^80 * x", "0.1^70 * x", "x * 0.1^30", "2^216 * 2^216", "x = 2^216"] + FOLD_MAGNITUDES
    out += ["3^40 * x", "x * 3^40", "2^60 * x", "(2^60 + 1) * x", "2^64 * x", "10^20 * x", "10^-5 * x", "x * 10^-5", "2^-20 * x",
            "7^30 * 7^30", "5!^12 * x", "25! * x", "(2^53 + 1) * x", "x^(2^53 + 1)", "x / 3^40", "x - 3^40 * y"]
    return out


def repo_inputs(repo):
    out = []
    for f in sorted(glob.glob(os.path.join(repo, "mathy_core", "rules", "*.test.json"))):
        with open(f) as fh:
            d = json.load(fh)
        for k in ("valid", "invalid"):
            for ex in d.get(k, []):
                if "input" in ex:
                    out.append(ex["input"])
                if "output" in ex:
                    out.append(ex["output"])
    seen = set()
    res = []
    for t in out:
        if t not in seen:
            seen.add(t)
            res.append(t)
    return res
