"""E-shape: all binary tree shapes with n nodes; a shape is (left, right) with None = absent."""
from functools import lru_cache


@lru_cache(maxsize=None)
def shapes(n):
    if n == 0:
        return (None,)
    out = []
    for k in range(n):
        for L in shapes(k):
            for R in shapes(n - 1 - k):
                out.append((L, R))
    return tuple(out)


def size(shape):
    if shape is None:
        return 0
    return 1 + size(shape[0]) + size(shape[1])


def build(shape, cls, counter=None):
    """Build real nodes of class `cls` for a shape; ids are 'p<k>' in pre-order."""
    if counter is None:
        counter = [0]
    if shape is None:
        return None
    me = counter[0]
    counter[0] += 1
    node = cls()
    node.id = f"p{me}"
    left = build(shape[0], cls, counter)
    right = build(shape[1], cls, counter)
    if left is not None:
        node.set_left(left)
    if right is not None:
        node.set_right(right)
    return node


def preorder(node):
    """Reference pre-order listing by links only."""
    out = []
    stack = [node]
    while stack:
        n = stack.pop()
        if n is None:
            continue
        out.append(n)
        stack.append(n.right)
        stack.append(n.left)
    return out


def inorder(node):
    out = []

    def rec(n):
        if n is None:
            return
        rec(n.left)
        out.append(n)
        rec(n.right)

    rec(node)
    return out


def postorder(node):
    out = []

    def rec(n):
        if n is None:
            return
        rec(n.left)
        rec(n.right)
        out.append(n)

    rec(node)
    return out


def mirror(shape):
    if shape is None:
        return None
    return (mirror(shape[1]), mirror(shape[0]))


def show(shape):
    if shape is None:
        return "."
    if shape == (None, None):
        return "o"
    return f"({show(shape[0])}{show(shape[1])})"


def parse(text):
    """Inverse of show()."""
    pos = [0]

    def rec():
        c = text[pos[0]]
        pos[0] += 1
        if c == ".":
            return None
        if c == "o":
            return (None, None)
        assert c == "("
        L = rec()
        R = rec()
        assert text[pos[0]] == ")"
        pos[0] += 1
        return (L, R)

    return rec()


def is_full(shape):
    if shape is None:
        return True
    a, b = shape
    if (a is None) != (b is None):
        return False
    return is_full(a) and is_full(b)
