"""E-string: all strings of length <= N over a finite alphabet, addressed by index so that the
space can be split into contiguous chunks for the workers."""


def count(k, n):
    return k ** n


def nth(alphabet, length, idx):
    k = len(alphabet)
    out = [None] * length
    for pos in range(length - 1, -1, -1):
        idx, r = divmod(idx, k)
        out[pos] = alphabet[r]
    return out


def iterate(alphabet, length, lo, hi):
    """yield the symbol lists with index lo..hi-1 (lexicographic in alphabet order)"""
    k = len(alphabet)
    if lo >= hi:
        return
    cur = [0] * length
    x = lo
    for pos in range(length - 1, -1, -1):
        x, r = divmod(x, k)
        cur[pos] = r
    for _ in range(hi - lo):
        yield [alphabet[c] for c in cur]
        pos = length - 1
        while pos >= 0:
            cur[pos] += 1
            if cur[pos] < k:
                break
            cur[pos] = 0
            pos -= 1


def tasks(k, max_len, parts_per_len=64, min_len=0):
    out = []
    for n in range(min_len, max_len + 1):
        total = k ** n
        p = 1 if total < 5000 else parts_per_len
        base, extra = divmod(total, p)
        start = 0
        for i in range(p):
            size = base + (1 if i < extra else 0)
            if size:
                out.append((n, start, start + size))
            start += size
    return out


# token classes for C03 / C10
TOKEN_CLASSES = ["C", "V", "+", "-", "*", "/", "^", "!", "(", ")", "=", "sgn"]
PRIMES = ["2", "3", "5", "7", "11", "13", "17", "19", "23"]
VARS = ["x", "y", "z", "w", "u", "v", "t", "p", "q"]


def render(classes):
    """token-class list -> text with pairwise distinct leaf lexemes, tokens separated by a blank"""
    ci = vi = 0
    out = []
    for c in classes:
        if c == "C":
            out.append(PRIMES[ci % len(PRIMES)])
            ci += 1
        elif c == "V":
            out.append(VARS[vi % len(VARS)])
            vi += 1
        else:
            out.append(c)
    return " ".join(out)
