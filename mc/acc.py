"""Mergeable accumulator for counters, violations, samples and distinct keys."""
from collections import Counter

MAX_EXAMPLES = 3


class Acc:
    def __init__(self):
        self.n = Counter()
        self.viol = {}  # core -> {"count": int, "examples": [case, ...]}
        self.samples = []
        self.keys = set()
        self.notes = []

    def count(self, name, k=1):
        self.n[name] += k

    def key(self, k):
        self.keys.add(k)

    def violation(self, core, case, detail=""):
        ent = self.viol.get(core)
        if ent is None:
            ent = self.viol[core] = {"count": 0, "examples": []}
        ent["count"] += 1
        if len(ent["examples"]) < MAX_EXAMPLES:
            ent["examples"].append({"case": case, "detail": detail})

    def sample(self, x, cap=6):
        if len(self.samples) < cap:
            self.samples.append(x)

    def merge(self, other):
        for k, v in other.n.items():
            if k.startswith("max"):
                self.n[k] = max(self.n[k], v)  # counters named max* are merged by maximum
            else:
                self.n[k] += v
        for core, ent in other.viol.items():
            mine = self.viol.get(core)
            if mine is None:
                self.viol[core] = {"count": ent["count"], "examples": list(ent["examples"])}
            else:
                mine["count"] += ent["count"]
                for ex in ent["examples"]:
                    if len(mine["examples"]) < MAX_EXAMPLES:
                        mine["examples"].append(ex)
        for s in other.samples:
            if len(self.samples) < 12:
                self.samples.append(s)
        self.keys |= other.keys
        self.notes.extend(other.notes)
        return self


def merge_all(accs):
    out = Acc()
    for a in accs:
        out.merge(a)
    return out
