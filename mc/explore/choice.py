"""E-choice: deviation-bounded exhaustive exploration of a choice tree.

The harness owns the `random` object seen by the code under test.  Every call is a choice point with
a finite menu of answers the real generator could give; an execution is identified by the list of menu
indices taken.  Exploration: all executions with 0 departures from the default answer, then 1, then 2 ...
(executions always run to completion).  Randint defaults cycle through the range (a fair default, so
rejection-sampling loops are not starved - a starving oracle is an assumption, not a finding)."""


class Divergence(Exception):
    """a replayed prefix does not fit the choice points met: hard harness error"""


class Oracle:
    def __init__(self, prefix=(), policy="first", answers=None):
        self.prefix = list(prefix)
        self.policy = policy
        self.trace = []  # (kind, menu_size, index_taken, default_index)
        self.answers = answers  # replay mode: recorded concrete answers of a real RNG
        self.log = []  # concrete answers given
        self._count = {}
        self._prev = {}

    # ---- choice core ---------------------------------------------------------------------
    def _pick(self, kind, menu, default_index):
        i = len(self.trace)
        if i < len(self.prefix):
            idx = self.prefix[i]
            if idx >= len(menu):
                raise Divergence(f"choice {i} ({kind}): index {idx} outside menu of {len(menu)}")
        else:
            idx = default_index
        self.trace.append((kind, len(menu), idx, default_index))
        return menu[idx]

    def _default(self, n):
        if self.policy == "first":
            return 0
        if self.policy == "last":
            return n - 1
        return len(self.trace) % n

    def _replayed(self, kind):
        k, v = self.answers[len(self.log)]
        if k != kind:
            raise Divergence(f"recorded call {len(self.log)} is {k}, code asked for {kind}")
        return v

    # ---- the random API used by problems.py --------------------------------------------------
    def randint(self, a, b):
        if self.answers is not None:
            v = self._replayed("randint")
            self.log.append(("randint", v))
            return v
        size = b - a + 1
        key = (a, b)
        cnt = self._count.get(key, 0)
        self._count[key] = cnt + 1
        off = 0 if self.policy == "first" else (size // 2 if self.policy == "cycle" else size - 1)
        fair = a + (cnt + off) % size
        if size <= 6:
            menu = list(range(a, b + 1))
        else:
            menu = [a, a + 1, (a + b) // 2, b - 1, b]
            prev = self._prev.get(key)
            if prev is not None:
                menu.append(prev)
        if fair not in menu:
            menu.append(fair)
        menu = list(dict.fromkeys(menu))
        v = self._pick("randint", menu, menu.index(fair))
        self._prev[key] = v
        self.log.append(("randint", v))
        return v

    def randrange(self, n):
        if self.answers is not None:
            v = self._replayed("randrange")
            self.log.append(("randrange", v))
            return v
        menu = [0, n - 1] if n > 1 else [0]
        v = self._pick("randrange", menu, self._default(len(menu)))
        self.log.append(("randrange", v))
        return v

    def random(self):
        if self.answers is not None:
            v = self._replayed("random")
            self.log.append(("random", v))
            return v
        menu = [0.5, 0.0, 0.049, 0.9999999]
        v = self._pick("random", menu, self._default(len(menu)))
        self.log.append(("random", v))
        return v

    def uniform(self, a, b):
        if self.answers is not None:
            v = self._replayed("uniform")
            self.log.append(("uniform", v))
            return v
        menu = [a + (b - a) * 0.5, a, b, a + (b - a) * 0.25, a + (b - a) * 0.99]
        v = self._pick("uniform", menu, self._default(len(menu)))
        self.log.append(("uniform", v))
        return v

    def choice(self, seq):
        if self.answers is not None:
            v = self._replayed("choice")
            self.log.append(("choice", v))
            return seq[v]
        menu = list(range(len(seq)))
        i = self._pick("choice", menu, self._default(len(menu)))
        self.log.append(("choice", i))
        return seq[i]

    def shuffle(self, lst):
        n = len(lst)
        if self.answers is not None:
            perm = self._replayed("shuffle")
            self.log.append(("shuffle", perm))
            items = list(lst)
            lst[:] = [items[j] for j in perm]
            return
        if n <= 1:
            perms = [tuple(range(n))]
        elif n <= 4:
            import itertools
            perms = list(itertools.permutations(range(n)))
        else:
            ident = tuple(range(n))
            perms = [ident, tuple(reversed(ident))] + [ident[k:] + ident[:k] for k in range(1, n)]
            perms = list(dict.fromkeys(perms))
        perm = self._pick("shuffle", perms, self._default(len(perms)))
        self.log.append(("shuffle", list(perm)))
        items = list(lst)
        lst[:] = [items[j] for j in perm]


    def sample(self, population, k):
        """k distinct elements: modelled as a shuffle of the index list followed by a prefix"""
        idx = list(range(len(population)))
        self.shuffle(idx)
        return [population[i] for i in idx[:k]]

    def choices(self, population, weights=None, *, cum_weights=None, k=1):
        return [self.choice(population) for _ in range(k)]

    def getrandbits(self, n):
        return self.randrange(1 << n) if n else 0


class Recorder:
    """wraps a real random.Random and records every answer in Oracle-replayable form"""

    def __init__(self, rng):
        self.rng = rng
        self.log = []

    def randint(self, a, b):
        v = self.rng.randint(a, b)
        self.log.append(("randint", v))
        return v

    def randrange(self, n):
        v = self.rng.randrange(n)
        self.log.append(("randrange", v))
        return v

    def random(self):
        v = self.rng.random()
        self.log.append(("random", v))
        return v

    def uniform(self, a, b):
        v = self.rng.uniform(a, b)
        self.log.append(("uniform", v))
        return v

    def choice(self, seq):
        i = self.rng.randrange(len(seq))
        self.log.append(("choice", i))
        return seq[i]

    def shuffle(self, lst):
        tagged = list(range(len(lst)))
        self.rng.shuffle(tagged)
        self.log.append(("shuffle", list(tagged)))
        items = list(lst)
        lst[:] = [items[j] for j in tagged]


    def sample(self, population, k):
        idx = list(range(len(population)))
        self.shuffle(idx)
        return [population[i] for i in idx[:k]]

    def choices(self, population, weights=None, *, cum_weights=None, k=1):
        return [self.choice(population) for _ in range(k)]

    def getrandbits(self, n):
        return self.randrange(1 << n) if n else 0


# ---- owning the module-level API of `random` ------------------------------------------------------
# The code under test may reach randomness as `random.randint(...)` (module attribute looked up at call time)
# or through names bound at import time (`from random import randint`).  install() replaces the public
# functions of the `random` module by dispatchers to the current oracle and reloads the given modules, so
# both spellings end up at the oracle.  Outside an execution the dispatchers fall through to the originals.

_CURRENT = [None]
_ORIG = {}
_API = ("randint", "randrange", "random", "uniform", "choice", "shuffle", "sample", "choices", "getrandbits")


def _dispatcher(name):
    def call(*a, **kw):
        cur = _CURRENT[0]
        if cur is None:
            return _ORIG[name](*a, **kw)
        return getattr(cur, name)(*a, **kw)

    call.__name__ = name
    return call


def install(*modules):
    import importlib
    import random as _r

    if not _ORIG:
        for name in _API:
            _ORIG[name] = getattr(_r, name)
            setattr(_r, name, _dispatcher(name))
        for m in modules:
            importlib.reload(m)


class owned:
    """with owned(oracle): ...   - every call into the random API goes to `oracle`"""

    def __init__(self, oracle):
        self.oracle = oracle

    def __enter__(self):
        self.prev = _CURRENT[0]
        _CURRENT[0] = self.oracle
        return self.oracle

    def __exit__(self, *exc):
        _CURRENT[0] = self.prev
        return False


def explore(execute, bound, cap=None):
    """execute(oracle) -> None (the callee checks and records).  Yields nothing; returns stats.

    Explores every execution with at most `bound` departures from the default answers."""
    stats = {"executions": 0, "max_points": 0, "by_deviations": {}, "capped": False}
    stack = [([], 0)]
    while stack:
        prefix, dev = stack.pop()
        if cap is not None and stats["executions"] >= cap:
            stats["capped"] = True
            break
        orc = execute(prefix)
        stats["executions"] += 1
        stats["by_deviations"][dev] = stats["by_deviations"].get(dev, 0) + 1
        trace = orc.trace
        if len(trace) < len(prefix):
            raise Divergence(f"execution met {len(trace)} choice points, prefix has {len(prefix)}")
        stats["max_points"] = max(stats["max_points"], len(trace))
        if dev >= bound:
            continue
        taken = [t[2] for t in trace]
        for i in range(len(prefix), len(trace)):
            kind, n, idx, default = trace[i]
            for alt in range(n):
                if alt != default:
                    stack.append((taken[:i] + [alt], dev + 1))
    return stats
