"""E-rewrite: the rewrite system as a transition system over real trees.

state      = expression tree (canonical key: mc.sig.sig)
transition = (rule configuration, in-order node index) with can_apply_to true, executed by the
             real apply_to on node.clone_from_root() - 'as search agents do'.
A trace is  start text + [(config name, index), ...]  and is replayable without the explorer."""
from .. import sig as SG

_CONFIGS = None


def configs():
    global _CONFIGS
    if _CONFIGS is None:
        from mathy_core import rules as R

        _CONFIGS = [
            ("AG", R.AssociativeSwapRule()),
            ("BM", R.BalancedMoveRule()),
            ("CS+", R.CommutativeSwapRule(preferred=True)),
            ("CS-", R.CommutativeSwapRule(preferred=False)),
            ("CA", R.ConstantsSimplifyRule()),
            ("DF", R.DistributiveFactorOutRule(constants=False)),
            ("DFc", R.DistributiveFactorOutRule(constants=True)),
            ("DM", R.DistributiveMultiplyRule()),
            ("MI", R.MultiplicativeInverseRule()),
            ("RS", R.RestateSubtractionRule()),
            ("VM", R.VariableMultiplyRule()),
        ]
    return _CONFIGS


def reset_configs():
    """fresh rule objects: the explorers call this at the start of every seed so that whatever state a
    rule object keeps between calls depends only on the recorded history of that seed"""
    global _CONFIGS
    _CONFIGS = None


def config(name):
    for n, r in configs():
        if n == name:
            return r
    raise KeyError(name)


def inorder(root):
    out = []

    def rec(n, d):
        if n is None:
            return
        if d > 400:
            raise SG.Cyclic("links nest deeper than 400 levels")
        rec(n.left, d + 1)
        out.append(n)
        rec(n.right, d + 1)

    rec(root, 0)
    return out


def path_of(node):
    """L/R path from the root to node, by links."""
    p = []
    while node.parent is not None:
        p.append("L" if node.parent.left is node else "R")
        node = node.parent
    return "".join(reversed(p))


def parse(text):
    from mathy_core.parser import ExpressionParser

    return ExpressionParser().parse(text)


LAST = {}


def step(root, rule, index):
    """One transition on a clone; returns the result root.  Raises what the rule raises.
    LAST['handed'] keeps the root of the copy that was handed to the rule (for audits of that tree)."""
    node = inorder(root)[index]
    clone = node.clone_from_root()
    LAST["handed"] = get_root(clone)
    LAST["handed_sig"] = SG.sig(LAST["handed"])
    change = rule.apply_to(clone)
    res = change.result
    return res, change


def get_root(node, limit=10000):
    k = 0
    while node.parent is not None and k < limit:
        node = node.parent
        k += 1
    return node


def scan(root):
    """ask every configuration about every node, as the explorers do before choosing a transition"""
    nodes = inorder(root)
    try:
        str(root)  # agents print every state they look at
    except Exception:  # noqa
        pass
    for _, rule in configs():
        for n in nodes:
            try:
                rule.can_apply_to(n)
            except Exception:  # noqa
                pass


def run_trace(text, trace, inplace=False, scan_states=True):
    """Replay start text + [(config, index), ...] with fresh rule objects; returns list of roots (states).
    Every visited state is scanned (can_apply_to on all nodes under all configurations) exactly as during
    exploration, so state kept inside rule objects is reproduced.  inplace: apply to the live tree instead
    of a clone (in that mode only the last root is meaningful)."""
    reset_configs()
    root = parse(text)
    out = [root]
    for cname, index in trace:
        if scan_states:
            scan(root)
        if inplace:
            node = inorder(root)[index]
            res = config(cname).apply_to(node).result
        else:
            res, _ = step(root, config(cname), index)
        root = get_root(res)
        out.append(root)
    if scan_states:
        scan(root)
    return out


# ---- abstraction used to name violation cores -----------------------------------------------

def const_class(payload):
    tc, s = payload
    try:
        v = SG.const_value(payload)
    except ValueError:
        return "c?"
    if v is None:
        return "c?"
    f = float(v)
    if f != f:
        return "cnan"
    typ = "" if tc == "i" else ("N" if tc in ("ni", "nf") else "")
    if f == 0:
        return "c0" + typ
    if f == 1:
        return "c1" + typ
    if f == -1:
        return "c-1" + typ
    if f == int(f) and abs(f) < 1e15:
        return ("cn" if f > 0 else "c-n") + typ
    return ("cf" if f > 0 else "c-f") + typ


def pat(s, depth=2):
    try:
        return _pat(s, depth)
    except Exception:  # noqa - a malformed signature must not take the harness down
        return "<?>"


def _pat(s, depth=2):
    if s is None:
        return "_"
    tag, payload, ls, rs = s
    if tag == "c":
        return const_class(payload)
    if tag == "v":
        return "v"
    if depth == 0:
        return f"<{tag}>"
    if tag in SG.UNARY:
        return f"{tag}({_pat(ls if ls is not None else rs, depth - 1)})"
    return f"({_pat(ls, depth - 1)}{tag}{_pat(rs, depth - 1)})"


def neighbourhood(node, depth=2):
    """pattern of the rewritten node's subtree + the kinds of its parent and grandparent."""
    s = SG.sig(node)
    up = []
    p = node
    for _ in range(2):
        if p.parent is None:
            up.append("root")
            break
        side = "L" if p.parent.left is p else "R"
        up.append(SG.TAGS.get(type(p.parent).__name__, "?") + side)
        p = p.parent
    return f"{pat(s, depth)} under {'/'.join(up)}"
