"""E-history: exhaustive enumeration of operation sequences on one live object.

Every sequence of operations of length <= depth over a finite alphabet is executed on a FRESH object
(live objects are not copied: a history is replayed from the start), and the observable result of every
step is compared with a stateless reference.  Sequences are addressed by index (base-k numbers) so the
space splits into contiguous chunks for the workers."""
from ..gen import strings as G


def sequences(nops, depth, lo, hi):
    """yield op-index lists of exactly `depth` operations with index lo..hi-1"""
    yield from G.iterate(list(range(nops)), depth, lo, hi)


def tasks(nops, max_depth, parts=64):
    return G.tasks(nops, max_depth, parts_per_len=parts, min_len=1)
