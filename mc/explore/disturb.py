"""Differential oracle against state that outlives a call: a battery of observations is taken in a freshly
forked process, then a disturbance (unrelated calls of the public API on other objects: odd inputs, failing
calls, many calls) is run, then the battery again.  The two observations must be identical - no hand-written
expected value is involved."""


def disturbances():
    """name -> callable.  Every callable swallows the exceptions of the calls it makes."""
    from mathy_core.layout import TreeLayout
    from mathy_core.parser import ExpressionParser

    from . import rewrite as RW

    def quiet(fn, *a):
        try:
            return fn(*a)
        except Exception:  # noqa
            return None

    def ask_rules(texts):
        for t in texts:
            tree = quiet(ExpressionParser().parse, t)
            if tree is None:
                continue
            for _, rule in RW.configs():
                for n in RW.inorder(tree):
                    quiet(rule.can_apply_to, n)
                quiet(rule.find_nodes, tree)

    def huge_coefficients():
        ask_rules(["18446744073709551617x + 4x", "x + 18446744073709551617", "340282366920938463463374607431768211456x + 2x",
                   "1" + "0" * 320 + "x + 2x", "4 + 18446744073709551617"])
        # (no float coefficient of that size: factor() would trial-divide up to its square root, 4e9 steps)

    def many_coefficient_pairs():
        texts = []
        for a in range(2, 42):
            for b in range(2, 12):
                texts += [f"{a} + {b}", f"{a}x + {b}y", f"{a}x + {b}x"]
        # ... and last, the coefficient pairs of the batteries in the other flavour (variables first)
        texts += ["4x + 8y", "6x + 9y", "9x + 15y", "4y + 8", "8 + 4", "8x + 4y"]
        ask_rules(texts)

    def failing_evaluations():
        tree = quiet(ExpressionParser().parse, " + ".join(["x"] * 44) + " + 2^3 * (4 + 1)")
        if tree is None:
            return
        nodes = tree.to_list("preorder")[1:]  # never the root: only sub-expressions are evaluated
        for _ in range(25):
            for n in nodes:
                quiet(n.evaluate)          # no context: every subtree with a variable fails
                quiet(n.evaluate, {"y": 1})

    def failing_parses():
        for i in range(200):
            quiet(ExpressionParser().parse, "(" * (i % 30 + 1) + f"{i}x + ")
            quiet(ExpressionParser().parse, f"{i} {i}")

    def rewrites_everywhere():
        for t in ("(2 + 3) * x + 4 * 5", "4x + 2x", "x * x^2", "7 - 3 + 2", "x / 3 + 2 / 3", "2x = 4 + 6", "-(x + 2) * 3", "4 / -(2 + 3)"):
            tree = quiet(ExpressionParser().parse, t)
            if tree is None:
                continue
            tree = tree.clone()
            for _, rule in RW.configs():
                node = quiet(rule.find_node, tree)
                if node is not None:
                    res = quiet(rule.apply_to, node)
                    if res is not None and res.result is not None:
                        tree = RW.get_root(res.result)
                        quiet(str, tree)
                        quiet(tree.evaluate, {"x": 3})

    def layouts_and_clones():
        tree = quiet(ExpressionParser().parse, "(a + b) * (c - d) / -e^2 + sgn(f) + 5!")
        if tree is None:
            return
        lay = TreeLayout()
        for ux in (1.0, 3.0, 0.25):
            quiet(lay.layout, tree, ux, ux)
        for n in tree.to_list():
            quiet(n.clone_from_root)
            quiet(n.clone)

    def negative_powers_and_nans():
        for t in ("(-8)^0.5", "(0 - 8)^(1 / 3)", "x^y", "1 / 0", "0^-1"):
            tree = quiet(ExpressionParser().parse, t)
            if tree is not None:
                quiet(tree.evaluate, {"x": -2, "y": 0.5})

    def renders():
        from mathy_core import expressions as E
        for t in ("4x + 2", "-(x + 2) * 3"):
            tree = quiet(ExpressionParser().parse, t)
            if tree is not None:
                quiet(lambda: tree.terminal_text)
        half = E.AddExpression(E.ConstantExpression(1))          # a node that cannot be printed
        quiet(lambda: half.terminal_text)
        quiet(lambda: E.PowerExpression(None, E.VariableExpression("x")).terminal_text)
        quiet(lambda: E.VariableExpression(None).terminal_text)

    def edit_public_tables():
        from mathy_core import util as U
        p1 = ExpressionParser()
        fns = getattr(p1.tokenizer, "functions", None)
        if isinstance(fns, dict):
            saved = dict(fns)
            fns.clear()                      # this parser shall know no functions
            quiet(p1.parse, "sgn(x)")
            fns.update({"abs": saved.get("sgn")})
            quiet(p1.parse, "abs(x)")
        for n in list(range(1, 40)) + [49, 121, 1018081]:
            d = quiet(U.factor, n)
            if isinstance(d, dict):
                d.clear()                    # the caller owns what it was handed
        for a, b in ((7, 3), (4, 8), (6, 9), (9, 15), (12, 18)):
            f = quiet(U.factor_add_terms_ex, U.TermEx(a, "x", None), U.TermEx(b, "x", None))
            if f:
                quiet(f.all_left.clear)
                quiet(f.all_right.clear)
        toks = quiet(ExpressionParser().tokenize, "4x + 2")
        if isinstance(toks, list):
            del toks[:]

    return [("colour renders, two of them failing", renders),
            ("edits of objects handed out earlier (function table of another parser, factor tables, token lists)", edit_public_tables),
            ("rule questions about coefficients beyond 64 bits", huge_coefficients),
            ("rule questions about 1200 coefficient pairs", many_coefficient_pairs),
            ("2 200 failing evaluations of subtrees", failing_evaluations),
            ("400 failing parses", failing_parses),
            ("in-place rewrites of other trees", rewrites_everywhere),
            ("layouts and clones of another tree", layouts_and_clones),
            ("evaluations that yield NaN / inf", negative_powers_and_nans)]


def run(battery):
    """battery() -> list of comparable observations.  Returns [(disturbance name, index, before, after)]."""
    from .. import watchdog

    watchdog.install()
    out = []
    base = battery()
    for name, d in disturbances():
        ok, val = watchdog.guarded(d, seconds=60.0)  # a disturbance that runs away is abandoned, not waited for
        now = battery()
        for i, (a, b) in enumerate(zip(base, now)):
            if a != b:
                out.append((name, i, a, b))
                break
    return out


# ---- ready-made batteries -------------------------------------------------------------------------------------

def parse_battery():
    from mathy_core.parser import ExpressionParser

    from .. import sig as SG

    out = []
    for t in ["4x + 2", "4x +", ") 4", "", "x = 2y^2", "12x", "1 2x", "(x + 1)(x - 1)", "2x^3", "2.0x^3.0", "sgn(-3)", "5!", "Sgn(2)", "8 / 4 / 2",
              "xy^2", "-x^2", "1.2.3", "2 # 3", "(" * 20 + "x", "((x))", "x^2^3", "-(-2)", "0.00002x", "9007199254740993"]:
        try:
            out.append((t, "tree", SG.sig(ExpressionParser().parse(t))))
        except Exception as e:  # noqa
            out.append((t, "raise", type(e).__name__, str(getattr(e, "message", e))[:60]))
    return out


def printed_results_battery():
    """the printed form of rewrite results (trees that carry 'changed' marks) and what it parses back to"""
    from mathy_core.parser import ExpressionParser

    from .. import sig as SG
    from . import rewrite as RW

    out = []
    RW.reset_configs()
    for t in ["4x + 2x", "2 + 4x", "(2 + 3) * x", "x * x^2", "7 - 3", "x / -y", "2x = 4 + 6", "4 + 8", "7x + 3x", "2 * sgn(x) + 2 * 3", "sgn(x) * sgn(x)"]:
        tree = ExpressionParser().parse(t)
        for cname, rule in RW.configs():
            for i, n in enumerate(RW.inorder(tree)):
                try:
                    if not rule.can_apply_to(n):
                        continue
                    res, _ = RW.step(tree, rule, i)
                    root = RW.get_root(res)
                    text = str(root)
                    out.append((t, cname, i, text, str(root.clone()), SG.sig(ExpressionParser().parse(text))))
                except Exception as e:  # noqa
                    out.append((t, cname, i, "raise", type(e).__name__))
    return out


def token_battery():
    from mathy_core.tokenizer import Tokenizer

    out = []
    for keep in (True, False):
        for t in ["4x + 2", "sgnx", "sgn(x)", "1.2.3", "x  –[y]", "7" * 70, " \t\n", "2#", "Sgn", "a.b"]:
            try:
                out.append((t, keep, tuple((k.type, k.value) for k in Tokenizer(exclude_padding=not keep).tokenize(t))))
            except Exception as e:  # noqa
                out.append((t, keep, "raise", type(e).__name__))
    return out


def clone_battery():
    from mathy_core.parser import ExpressionParser

    from .. import sig as SG
    from . import rewrite as RW

    out = []
    # a tree that carries 'changed' marks from a rule prints like its clone (which carries none)
    marked = ExpressionParser().parse("2 + 4x").clone()
    try:
        RW.config("CS+").apply_to(marked)
        out.append(("marked", str(marked), str(marked.clone())))
    except Exception as e:  # noqa
        out.append(("marked", "raise", type(e).__name__))
    for t in ["4x + 2", "-(x + 2) * 3", "x = 2y^2", "sgn(x)^2 + 5!", "(a + b) * (a + b)"]:
        tree = ExpressionParser().parse(t)
        out.append((t, "clone", SG.sig(tree.clone())))
        for i, n in enumerate(RW.inorder(tree)):
            try:
                r = n.clone_from_root()
                out.append((t, i, RW.path_of(r), SG.sig(RW.get_root(r))))
            except Exception as e:  # noqa
                out.append((t, i, "raise", type(e).__name__))
    return out


def layout_battery():
    from mathy_core.layout import TreeLayout
    from mathy_core.tree import BinaryTreeNode

    from ..gen import shapes as S

    out = []
    for sh in ["(o(o.))", "((.o)((.o)(oo)))", "(((.(.o)).)(.((o.).)))", "((oo)(oo))", "(.(.(.o)))"]:
        for ux, uy in ((1.0, 1.0), (2.0, 3.0)):
            root = S.build(S.parse(sh), BinaryTreeNode)
            m = TreeLayout().layout(root, ux, uy)
            out.append((sh, ux, tuple((n.x, n.y) for n in S.preorder(root)), (m.minX, m.maxX, m.minY, m.maxY, m.width, m.height)))
    return out


def predicate_battery():
    from mathy_core import util as U
    from mathy_core.parser import ExpressionParser

    out = []
    for t in ["x^2 + x + x^2", "2x + 3y", "4x^2", "x * x + 3x^2", "2 + 3", "4x * 2y", "x^2 * 4", "-x^2 + 0.5x"]:
        tree = ExpressionParser().parse(t)
        row = [t]
        for fn in (U.has_like_terms, U.is_simple_term, U.is_preferred_term_form):
            try:
                row.append(fn(tree))
            except Exception as e:  # noqa
                row.append("raise:" + type(e).__name__)
        for n in tree.to_list("inorder"):
            try:
                g = U.get_term_ex(n)
                row.append(None if g is None else tuple(g))
            except Exception as e:  # noqa
                row.append("raise:" + type(e).__name__)
        out.append(tuple(row))
    for n in (9, 12, 49729, 1018081, 97):
        try:
            out.append(("factor", n, tuple(sorted((int(k), int(v)) for k, v in U.factor(n).items()))))
        except Exception as e:  # noqa
            out.append(("factor", n, "raise:" + type(e).__name__))
    return out


def generator_battery():
    """the generators under fixed seeds of the real RNG: same seed, same output, whatever happened before"""
    import random

    from mathy_core import problems as P

    out = []
    calls = [("gen_simplify_multiple_terms", dict(num_terms=4)), ("gen_combine_terms_in_place", {}), ("gen_commute_haystack", {}),
             ("gen_move_around_blockers_one", dict(number_blockers=2)), ("gen_move_around_blockers_two", dict(number_blockers=2)),
             ("gen_binomial_times_binomial", {}), ("gen_binomial_times_monomial", {})]
    for pretty in (True, False):
        P.use_pretty_numbers(pretty)
        for seed in (0, 1, 7):
            for gen, kw in calls:
                random.seed(seed)
                try:
                    out.append((gen, pretty, seed, getattr(P, gen)(**kw)))
                except Exception as e:  # noqa
                    out.append((gen, pretty, seed, "raise:" + type(e).__name__))
    P.use_pretty_numbers(True)
    return out


def differential(prefix, battery):
    """[(core, detail)] - ready for Acc.violation"""
    return [(f"{prefix}-depend-on-earlier-unrelated-calls", f"after {name}: {str(before)[:160]} became {str(after)[:160]}")
            for name, i, before, after in run(battery)]
