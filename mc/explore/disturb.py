"""Differential oracle against state that outlives a call: a battery of observations is taken in a freshly
forked process, then a disturbance (unrelated calls of the public API on other objects: odd inputs, failing
calls, many calls) is run, then the battery again.  The two observations must be identical - no hand-written
expected value is involved."""


def disturbances():
    """name -> callable.  Every callable swallows the exceptions of the calls it makes."""
    from mathy_core.layout import TreeLayout
    from mathy_core.parser import ExpressionParser

    from . import rewrite as RW

    def quiet(fn, *a):
        try:
            return fn(*a)
        except Exception:  # noqa
            return None

    def ask_rules(texts):
        for t in texts:
            tree = quiet(ExpressionParser().parse, t)
            if tree is None:
                continue
            for _, rule in RW.configs():
                for n in RW.inorder(tree):
                    quiet(rule.can_apply_to, n)
                quiet(rule.find_nodes, tree)

    def huge_coefficients():
        ask_rules(["18446744073709551617x + 4x", "x + 18446744073709551617", "340282366920938463463374607431768211456x + 2x",
                   "1" + "0" * 320 + "x + 2x", "4 + 18446744073709551617"])
        # (no float coefficient of that size: factor() would trial-divide up to its square root, 4e9 steps)

    def many_coefficient_pairs():
        texts = []
        for a in range(2, 42):
            for b in range(2, 12):
                texts += [f"{a} + {b}", f"{a}x + {b}y", f"{a}x + {b}x"]
        # ... and last, the coefficient pairs of the batteries in the other flavour (variables first)
        texts += ["4x + 8y", "6x + 9y", "9x + 15y", "4y + 8", "8 + 4", "8x + 4y"]
        ask_rules(texts)

    def failing_evaluations():
        tree = quiet(ExpressionParser().parse, " + ".join(["x"] * 44) + " + 2^3 * (4 + 1)")
        if tree is None:
            return
        nodes = tree.to_list("preorder")[1:]  # never the root: only sub-expressions are evaluated
        for _ in range(25):
            for n in nodes:
                quiet(n.evaluate)          # no context: every subtree with a variable fails
                quiet(n.evaluate, {"y": 1})

    def failing_parses():
        for i in range(200):
            quiet(ExpressionParser().parse, "(" * (i % 30 + 1) + f"{i}x + ")
            quiet(ExpressionParser().parse, f"{i} {i}")

    def rewrites_everywhere():
        for t in ("(2 + 3) * x + 4 * 5", "4x + 2x", "x * x^2", "7 - 3 + 2", "x / 3 + 2 / 3", "2x = 4 + 6", "-(x + 2) * 3", "4 / -(2 + 3)"):
            tree = quiet(ExpressionParser().parse, t)
            if tree is None:
                continue
            tree = tree.clone()
            for _, rule in RW.configs():
                node = quiet(rule.find_node, tree)
                if node is not None:
                    res = quiet(rule.apply_to, node)
                    if res is not None and res.result is not None:
                        tree = RW.get_root(res.result)
                        quiet(str, tree)
                        quiet(tree.evaluate, {"x": 3})

    def layouts_and_clones():
        tree = quiet(ExpressionParser().parse, "(a + b) * (c - d) / -e^2 + sgn(f) + 5!")
        if tree is None:
            return
        lay = TreeLayout()
        for ux in (1.0, 3.0, 0.25):
            quiet(lay.layout, tree, ux, ux)
        for n in tree.to_list():
            quiet(n.clone_from_root)
            quiet(n.clone)

    def negative_powers_and_nans():
        for t in ("(-8)^0.5", "(0 - 8)^(1 / 3)", "x^y", "1 / 0", "0^-1"):
            tree = quiet(ExpressionParser().parse, t)
            if tree is not None:
                quiet(tree.evaluate, {"x": -2, "y": 0.5})

    return [("rule questions about coefficients beyond 64 bits", huge_coefficients),
            ("rule questions about 1200 coefficient pairs", many_coefficient_pairs),
            ("2 200 failing evaluations of subtrees", failing_evaluations),
            ("400 failing parses", failing_parses),
            ("in-place rewrites of other trees", rewrites_everywhere),
            ("layouts and clones of another tree", layouts_and_clones),
            ("evaluations that yield NaN / inf", negative_powers_and_nans)]


def run(battery):
    """battery() -> list of comparable observations.  Returns [(disturbance name, index, before, after)]."""
    from .. import watchdog

    watchdog.install()
    out = []
    base = battery()
    for name, d in disturbances():
        ok, val = watchdog.guarded(d, seconds=60.0)  # a disturbance that runs away is abandoned, not waited for
        now = battery()
        for i, (a, b) in enumerate(zip(base, now)):
            if a != b:
                out.append((name, i, a, b))
                break
    return out
