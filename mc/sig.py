"""Structural signatures of expression trees: canonical state keys for the explorers.

sig(node) = (tag, payload, left_sig, right_sig), built from links and classes only.
Dropped on purpose: node.id, _changed, classes, r_index, layout scratch fields - no rule,
printer, evaluator or util predicate reads them (DESIGN.md section 2, canonicalisation argument).
Kept: constant value *and* numeric type class (int / float / numpy int / numpy float) because
numpy integers overflow where Python ints do not; the child_on_left flag of one-operand nodes."""
import numpy as np

TAGS = {
    "ConstantExpression": "c",
    "VariableExpression": "v",
    "AddExpression": "+",
    "SubtractExpression": "-",
    "MultiplyExpression": "*",
    "DivideExpression": "/",
    "PowerExpression": "^",
    "EqualExpression": "=",
    "NegateExpression": "neg",
    "FactorialExpression": "!",
    "SgnExpression": "sgn",
    "AbsExpression": "abs",
}
UNARY = ("neg", "!", "sgn", "abs")
BINARY = ("+", "-", "*", "/", "^", "=")


def const_payload(value):
    if value is None:
        return ("none", "")
    if isinstance(value, bool):
        return ("bool", str(value))
    if isinstance(value, int):
        return ("i", str(value))
    if isinstance(value, float):
        return ("f", value.hex())
    if isinstance(value, np.integer):
        return ("ni", str(int(value)))
    if isinstance(value, np.floating):
        return ("nf", float(value).hex())
    return (type(value).__name__, repr(value))


class Cyclic(Exception):
    """the links do not form a tree (a node is its own descendant)"""


def sig(node, _depth=0):
    if node is None:
        return None
    if _depth > 400:
        raise Cyclic("links nest deeper than 400 levels")
    tag = TAGS.get(type(node).__name__, type(node).__name__)
    if tag == "c":
        payload = const_payload(node.value)
    elif tag == "v":
        payload = node.identifier
    elif tag in UNARY:
        payload = bool(node.child_on_left)
    else:
        payload = None
    return (tag, payload, sig(node.left, _depth + 1), sig(node.right, _depth + 1))


def const_value(payload):
    tc, s = payload
    if tc == "i":
        return int(s)
    if tc == "f":
        return float.fromhex(s)
    if tc == "ni":
        return np.int64(int(s))
    if tc == "nf":
        return np.float64(float.fromhex(s))
    if tc == "none":
        return None
    raise ValueError(f"cannot rebuild constant of class {tc}")


def build(s):
    """Rebuild a real tree from a signature through the public constructors."""
    from mathy_core import expressions as E

    if s is None:
        return None
    tag, payload, ls, rs = s
    if tag == "c":
        return E.ConstantExpression(const_value(payload))
    if tag == "v":
        return E.VariableExpression(payload)
    if tag in UNARY:
        cls = {"neg": E.NegateExpression, "!": E.FactorialExpression, "sgn": E.SgnExpression, "abs": E.AbsExpression}[tag]
        child = build(ls if ls is not None else rs)
        return cls(child, child_on_left=payload)
    cls = {"+": E.AddExpression, "-": E.SubtractExpression, "*": E.MultiplyExpression, "/": E.DivideExpression,
           "^": E.PowerExpression, "=": E.EqualExpression}[tag]
    return cls(build(ls), build(rs))


def variables(s, out=None):
    if out is None:
        out = set()
    if s is None:
        return out
    if s[0] == "v":
        out.add(s[1])
    variables(s[2], out)
    variables(s[3], out)
    return out


def size(s):
    if s is None:
        return 0
    return 1 + size(s[2]) + size(s[3])


def has_float(s):
    if s is None:
        return False
    if s[0] == "c" and s[1][0] != "i":
        return True
    return has_float(s[2]) or has_float(s[3])


def arity_problems(s, path="root"):
    """Every operator has the operands its arity requires (by links)."""
    if s is None:
        return []
    tag, payload, ls, rs = s
    out = []
    if tag in ("c", "v"):
        if ls is not None or rs is not None:
            out.append(f"{path}: leaf '{tag}' has children")
        if tag == "c" and payload[0] == "none":
            out.append(f"{path}: constant without a value")
        if tag == "v" and not payload:
            out.append(f"{path}: variable without a name")
    elif tag in UNARY:
        if (ls is None) == (rs is None):
            out.append(f"{path}: one-operand node '{tag}' has {0 if ls is None else 2} operands")
        elif (ls is not None) != bool(payload):
            out.append(f"{path}: one-operand node '{tag}' holds its operand on the side its flag denies")
    elif tag in BINARY:
        if ls is None or rs is None:
            out.append(f"{path}: binary '{tag}' misses an operand")
    else:
        out.append(f"{path}: unknown node class {tag}")
    out += arity_problems(ls, path + ".L")
    out += arity_problems(rs, path + ".R")
    return out


def show(s):
    """Fully parenthesised text of a signature (harness's own printer, for reports)."""
    if s is None:
        return "<none>"
    tag, payload, ls, rs = s
    if tag == "c":
        try:
            v = const_value(payload)
        except ValueError:
            return f"<{payload}>"
        t = repr(v) if not isinstance(v, (np.integer, np.floating)) else f"np({v!r})"
        return t
    if tag == "v":
        return str(payload)
    if tag in UNARY:
        inner = show(ls if ls is not None else rs)
        if tag == "neg":
            return f"-({inner})"
        if tag == "!":
            return f"({inner})!"
        return f"{tag}({inner})"
    return f"({show(ls)} {tag} {show(rs)})"
