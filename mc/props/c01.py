"""C01 - every applicable rewrite preserves the value of the expression."""
from . import steps
from .. import sig as SG
from ..explore import rewrite as RW
from ..oracle import equiv

LEVEL = "model_checking"


def judge(s, node, cname, result, error, nb=None):
    """[(core, detail)] for one executed transition."""
    if error is not None or result is None:
        return []  # raising / empty results are judged by C06
    try:
        rs = SG.sig(RW.get_root(result))
    except Exception:  # noqa
        return []
    if SG.arity_problems(rs) or rs[0] == "=":
        return []  # malformed results are judged by C07
    vd = equiv.same_function(s, rs)
    if vd.same:
        stress = stress_evaluate(s, rs, result)
        if stress:
            return [(f"{cname}|value-changed-under-evaluate|{nb or RW.neighbourhood(node)}", stress)]
        return [("", vd)]
    core = f"{cname}|value-changed|{nb or RW.neighbourhood(node)}"
    return [(core, f"{SG.show(s)}  ->  {SG.show(rs)}  differ at {vd.witness}")]


def _exact_class(z):
    """integer constants (Python or numpy), + - * negation and small non-negative integer powers only"""
    if z is None:
        return True
    if z[0] == "c":
        return z[1][0] in ("i", "ni")
    if z[0] == "v":
        return True
    if z[0] in ("+", "-", "*", "neg"):
        return _exact_class(z[2]) and _exact_class(z[3])
    if z[0] == "^":
        e = z[3]
        return _exact_class(z[2]) and e is not None and e[0] == "c" and e[1][0] in ("i", "ni") and 0 <= int(e[1][1]) <= 6
    return False


def stress_evaluate(s, rs, result):
    """The rewritten tree must also EVALUATE (with the library's own evaluator) to the same number: for trees
    in the exact integer class the library promises exact results, so the result tree is evaluated at
    assignments around 2**62 and compared with the exact value of the tree before the rewrite.  Catches
    constants of a wrapping numeric type that a rule leaves in its result."""
    from fractions import Fraction

    from ..oracle import exact

    if not (_exact_class(s) and _exact_class(rs)):
        return None
    names = sorted(SG.variables(s) | SG.variables(rs))
    if not names:
        return None
    env = {v: 2 ** 62 + 1 + 2 * i for i, v in enumerate(names)}
    want, st = exact.evaluate(s, {k: Fraction(v) for k, v in env.items()})
    if want in (exact.UNDEF, exact.SKIP):
        return None
    try:
        got = RW.get_root(result).evaluate(dict(env))
    except Exception as e:  # noqa
        return f"{SG.show(s)} -> {SG.show(rs)}: evaluating the result at {env} raises {type(e).__name__}: {e}"
    try:
        ok = bool(got == want.numerator) and want.denominator == 1
    except Exception:  # noqa
        ok = False
    if not ok:
        return f"{SG.show(s)} -> {SG.show(rs)}: at {env} the result evaluates to {got!r} ({type(got).__name__}), exact value {want}"
    return None


class V(steps.Visitor):
    def on_transition(self, acc, ctx, root, s, cname, rule, index, node, result, change, error):
        for core, detail in judge(s, node, cname, result, error, ctx.get("nb")):
            if core == "":
                vd = detail
                acc.count("decided" if vd.decided else "tested_only")
                acc.count("grid_points", vd.npoints)
                if vd.common == 0:
                    acc.count("no_common_domain")
                continue
            case = {"text": ctx["text"], "trace": ctx["trace"], "cfg": cname, "index": index, "inplace": ctx.get("inplace", False)}
            acc.violation(core, case, detail)
        if acc.n["transitions"] % 5000 == 1:
            acc.sample({"start": ctx["text"], "trace": ctx["trace"] + [[cname, index]]})


def run(tier, seed):
    texts, heavy = steps.start_texts(tier, "expr")
    # quick: one step from every start tree, two steps from the reduced set.
    # thorough: one step from every start tree of the larger families, two steps from every quick start tree.
    depth = 1
    acc = steps.run(V, texts, depth, "expr", seed, heavy)
    if tier == "quick":
        small = steps.small_texts("expr")
        acc.merge(steps.run(V, small, 2, "expr", seed, 0, key="small"))  # clone mode, closure depth 2
    else:
        qtexts, qh = steps.start_texts("quick", "expr")
        acc.merge(steps.run(V, qtexts, 2, "expr", seed, qh, key="quickset"))
        small = qtexts[qh:][::3]
    acc.merge(steps.run(V, small, "inplace", "expr", seed, 0, key="small"))  # live-tree mode, 2 steps
    cov = {
        "states": len(acc.keys),
        "transitions": acc.n["transitions"],
        "traces_validated_against_impl": acc.n["transitions"],
        "exhaustive": True,
        "bound": {"start_texts": len(texts), "closure_depth_all": depth,
                  "closure_depth_2_start_texts": len(small) if tier == "quick" else "all quick start texts",
                  "inplace_start_texts": len(small)},
        "inplace_transitions": acc.n["inplace_transitions"],
        "decided_by_degree_bound": acc.n["decided"],
        "tested_only": acc.n["tested_only"],
        "per_config": {k[8:]: v for k, v in sorted(acc.n.items()) if k.startswith("applied:")},
        "explanation": "every start state x 11 rule configurations x every node with can_apply_to true; each transition is an "
                       "execution of the real apply_to on clone_from_root (so every explored transition is validated against the "
                       "implementation by construction); value equality decided on a rational grid with degree bounds",
    }
    return acc, cov, [
        "equivalence outside the rational fragment (variable/fractional exponents, sgn, factorial) is tested on the grid, not decided",
        "float rounding up to 1e-9 x scale is allowed where constants are floats (the property allows rounding of folded constants)",
    ]


def _replay_direct(case):
    cur, s, cname, rule, index, node, result, change, error, nb = steps.replay_last(case)
    return [(c, d) for c, d in judge(s, node, cname, result, error, nb) if c]


def replay(case):
    """three-level replay, each level in a fresh process (see steps.layered_replay)"""
    return steps.layered_replay(case, _replay_direct, V)
