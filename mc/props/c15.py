"""C15 - rotation preserves the in-order sequence and link consistency.

Space: every binary tree shape with n nodes (n <= N) x every node of it; each case is run
on freshly built real BinaryTreeNode (and MathExpression) objects."""
from .. import par
from ..acc import Acc, merge_all
from ..gen import shapes as S
from ..oracle.audit import link_audit

LEVEL = "exploration"
BOUND = {"quick": 8, "thorough": 12}


def _classes():
    from mathy_core.tree import BinaryTreeNode
    from mathy_core.expressions import MathExpression

    return {"BinaryTreeNode": BinaryTreeNode, "MathExpression": MathExpression}


IDMODES = ("unique", "all-equal", "by-depth")


def _relabel(root, mode):
    """node ids are payload, not identity: clones share ids, so rotation must not depend on them"""
    if mode == "unique":
        return

    def rec(n, d):
        if n is None:
            return
        n.id = "same" if mode == "all-equal" else f"d{d}"
        rec(n.left, d + 1)
        rec(n.right, d + 1)

    rec(root, 0)


def check_case(shape, index, clsname="BinaryTreeNode", idmode="unique"):
    """Rotate the index-th node (pre-order) of a fresh tree; return [(core, detail)]."""
    cls = _classes()[clsname]
    root = S.build(shape, cls)
    nodes = S.preorder(root)
    _relabel(root, idmode)
    node = nodes[index]
    before = [id(n) for n in S.inorder(root)]
    parent = node.parent
    grand = parent.parent if parent is not None else None
    pside = None
    if grand is not None:
        pside = "left" if grand.left is parent else "right"
    nside = None
    if parent is not None:
        nside = "left" if parent.left is node else "right"
    snap = [(id(n), id(n.left), id(n.right), id(n.parent)) for n in nodes]
    out = []
    try:
        ret = node.rotate()
    except Exception as e:  # noqa
        return [("raises:" + type(e).__name__, repr(e))]
    if ret is not node:
        out.append(("return-value", "rotate() did not return the node"))
    if parent is None:
        after = [(id(n), id(n.left), id(n.right), id(n.parent)) for n in nodes]
        if after != snap:
            out.append(("root-rotation-changes-tree", "rotating the root modified links"))
        return out
    new_root = node
    hops = 0
    while new_root.parent is not None and hops < 1000:
        new_root = new_root.parent
        hops += 1
    probs = link_audit(new_root)
    if probs:
        out.append(("links-inconsistent", "; ".join(probs[:3])))
    after = [id(n) for n in S.inorder(new_root)] if not probs else None
    if after is not None and after != before:
        pos = {b: i for i, b in enumerate(before)}
        out.append(("inorder-changed", f"in-order positions after rotation: {[pos.get(a, '?') for a in after]}"))
    if parent.parent is not node:
        out.append(("node-not-above-parent", "old parent's parent is not the rotated node"))
    expect_child = "right" if nside == "left" else "left"
    if getattr(node, expect_child) is not parent:
        out.append(("node-not-above-parent", f"old parent is not the {expect_child} child of the node"))
    if node.parent is not grand:
        out.append(("grandparent-link", "node.parent is not the old grandparent"))
    if grand is not None and getattr(grand, pside) is not node:
        out.append(("grandparent-link", f"grandparent.{pside} does not point at the rotated node"))
    # de-duplicate cores
    seen = set()
    res = []
    for c, d in out:
        if c not in seen:
            seen.add(c)
            res.append((c, d))
    return res


def check_regroup(text):
    """The associative rule is a rotation: applied in place at every node where it reports applicable, the
    whole tree must be exactly what node.rotate() produces on an identical tree - same in-order sequence of
    node ids, same links, node above its old parent.  Also after the tree was printed and an operand pair was
    commuted in place first (two-rule sequences), and judged by the library's own printer as well as by links."""
    from ..explore import rewrite as RW
    from .. import sig as SG
    from ..oracle.audit import link_audit as audit_links

    out = []
    try:
        probe = RW.parse(text)
    except Exception:  # noqa
        return out
    rule = RW.config("AG")
    cs = RW.config("CS+")
    pre_steps = [None] + [i for i, n in enumerate(RW.inorder(probe)) if cs.can_apply_to(n)]
    for pre in pre_steps:
        base = RW.parse(text).clone()
        if pre is not None:
            try:
                str(base)
                cs.apply_to(RW.inorder(base)[pre])
                base = RW.get_root(base)
                str(base)
            except Exception:  # noqa
                continue
        try:
            cand = [i for i, n in enumerate(RW.inorder(base)) if rule.can_apply_to(n)]
        except Exception:  # noqa
            continue
        for index in cand:
            t1 = RW.parse(text).clone()
            if pre is not None:
                str(t1)
                cs.apply_to(RW.inorder(t1)[pre])
                t1 = RW.get_root(t1)
                str(t1)
            t2 = SG.build(SG.sig(t1))  # a freshly built identical tree: nothing remembered about it anywhere
            for a, b in zip(RW.inorder(t1), RW.inorder(t2)):
                b.id = a.id
            n1 = RW.inorder(t1)[index]
            n2 = RW.inorder(t2)[index]
            ids_before = [x.id for x in RW.inorder(t1)]
            where = f"{text!r}" + (f" after commuting in-order {pre}" if pre is not None else "") + f" at in-order {index}"
            try:
                res = rule.apply_to(n1).result
            except Exception as e:  # noqa
                out.append(("regroup-raises:" + type(e).__name__, f"{where}: {e!r}"))
                continue
            n2.rotate()
            try:
                r1, r2 = RW.get_root(res), RW.get_root(n2)
                probs = audit_links(r1)
                if probs:
                    out.append(("regroup-links-inconsistent", f"{where}: {probs[0]}"))
                    continue
                ids1 = [x.id for x in RW.inorder(r1)]
            except SG.Cyclic as e:
                out.append(("regroup-links-inconsistent", f"{where}: cycle ({e})"))
                continue
            if ids1 != ids_before:
                out.append(("regroup-changes-inorder-sequence", f"{where}: node order {ids_before} -> {ids1}"))
                continue

            def layout(r):
                return [(x.id, x.left.id if x.left is not None else None, x.right.id if x.right is not None else None) for x in RW.inorder(r)]

            if SG.sig(r1) != SG.sig(r2) or layout(r1) != layout(r2):
                out.append(("regroup-is-not-the-rotation", f"{where}: {SG.show(SG.sig(r1))} vs rotate() {SG.show(SG.sig(r2))}"))
                continue
            # the library's own view of the regrouped tree (printer, evaluator) must agree with its links
            fresh = SG.build(SG.sig(r1))
            try:
                p1, p2 = str(r1), str(fresh)
            except Exception as e:  # noqa
                out.append(("regrouped-tree-does-not-print", f"{where}: {e!r}"))
                continue
            if p1 != p2:
                out.append(("regrouped-tree-prints-differently-from-its-links", f"{where}: prints {p1!r}, its links say {p2!r}"))
    seen, res_ = set(), []
    for c, d in out:
        if c not in seen:
            seen.add(c)
            res_.append((c, d))
    return res_


def check_expression_rotation(text):
    """rotate() on every node of a real parsed expression tree (all node classes, one-operand nodes included)"""
    from ..explore import rewrite as RW
    from .. import sig as SG
    from ..oracle.audit import link_audit as audit_links

    out = []
    try:
        probe = RW.parse(text)
    except Exception:  # noqa
        return out
    n = len(RW.inorder(probe))
    for index in range(n):
        tree = RW.parse(text).clone()
        nodes = RW.inorder(tree)
        node = nodes[index]
        if node.parent is None:
            continue
        before = [id(x) for x in nodes]
        try:
            node.rotate()
        except Exception as e:  # noqa
            out.append(("expression-rotation-raises:" + type(e).__name__, f"{text!r} rotating in-order {index} ({type(node).__name__}): {e!r}"))
            continue
        try:
            root = RW.get_root(node)
            probs = audit_links(root)
            after = [id(x) for x in RW.inorder(root)]
        except SG.Cyclic:
            probs, after = ["cycle"], None
        if probs:
            out.append(("expression-rotation-links-inconsistent", f"{text!r} rotating in-order {index}: {probs[0]}"))
        elif after != before:
            out.append(("expression-rotation-changes-inorder", f"{text!r} rotating in-order {index} ({type(node).__name__})"))
    seen, res_ = set(), []
    for c, d in out:
        if c not in seen:
            seen.add(c)
            res_.append((c, d))
    return res_


def regroup_texts():
    from ..gen import exprs as X

    base = X.same_op_groupings(3, ["2", "x", "y", "4x"]) + X.same_op_groupings(4, ["2", "x", "y"])
    out = []
    for b in base:
        out += [b, f"-({b})", f"sgn({b})", f"({b}) - w", f"w - ({b})", f"2^({b})", f"({b}) / w", f"w = ({b})", f"(w - ({b})) * q",
                f"-(w + sgn({b}))"]
    return out


_RT = []
_ET = []


def _work(task):
    if task[0] == "regroup":
        acc = Acc()
        for i in range(task[1], task[2]):
            acc.count("regroup_texts")
            for core, detail in check_regroup(_RT[i]):
                acc.violation(core, {"regroup": _RT[i]}, detail)
        return acc
    if task[0] == "exprrot":
        acc = Acc()
        for i in range(task[1], task[2]):
            acc.count("expression_rotation_texts")
            for core, detail in check_expression_rotation(_ET[i]):
                acc.violation(core, {"exprrot": _ET[i]}, detail)
        return acc
    n, lo, hi, clsname = task
    acc = Acc()
    shp = S.shapes(n)
    for si in range(lo, hi):
        shape = shp[si]
        for i in range(n):
            for idmode in IDMODES:
                if idmode != "unique" and (n > BOUND["quick"] - 1 or clsname != "BinaryTreeNode"):
                    continue
                acc.count("rotations")
                res = check_case(shape, i, clsname, idmode)
                if i > 0:
                    acc.count("nonroot")
                for core, detail in res:
                    acc.violation(core + ("" if idmode == "unique" else f"|ids={idmode}"),
                                  {"shape": S.show(shape), "index": i, "cls": clsname, "idmode": idmode}, detail)
        if si == lo:
            acc.sample({"shape": S.show(shape), "rotated": "every node", "cls": clsname})
    return acc


def run(tier, seed):
    N = BOUND[tier]
    tasks = []
    for n in range(1, N + 1):
        total = len(S.shapes(n))
        for clsname in ("BinaryTreeNode", "MathExpression"):
            if clsname == "MathExpression" and n > N - 2:
                continue
            for lo, hi in par.chunks(total, 16 if total > 2000 else 1):
                tasks.append((n, lo, hi, clsname))
    _RT[:] = regroup_texts()
    tasks += [("regroup", lo, hi) for lo, hi in par.chunks(len(_RT), 32)]
    from ..gen import exprs as X
    _ET[:] = X.uniform(4 if tier == "quick" else 5, leaves=["2", "x", "-3"]) + ["a + -b", "2 * sgn(x)", "-(a + b) * c", "x^-y + 3!", "4x^2 = -y"]
    tasks += [("exprrot", lo, hi) for lo, hi in par.chunks(len(_ET), 32)]
    k = seed % len(tasks)
    tasks = tasks[k:] + tasks[:k]
    acc = merge_all(par.pmap(_work, tasks))
    nshapes = sum(len(S.shapes(n)) for n in range(1, N + 1))
    cov = {
        "evaluations": acc.n["rotations"],
        "distinct_nontrivial": acc.n["nonroot"],
        "rule": f"all binary tree shapes with 1..{N} nodes (Catalan numbers, {nshapes} shapes) x every node; "
                "each (shape,node) pair is distinct by construction; non-trivial = the node is not the root "
                "(a real rotation happens); root rotations are checked for 'changes nothing'; shapes up to 7 nodes are also rotated "
                "with all-equal and depth-based node ids (ids are payload that clones share, not identity); in addition the "
                "associative rule is applied at every applicable node of same-operator groupings in 10 contexts and must equal "
                "node.rotate() on an identical tree, node for node",
        "regroup_texts": acc.n["regroup_texts"],
        "expression_rotation_texts": acc.n["expression_rotation_texts"],
        "exhaustive": True,
        "bound": {"max_nodes": N},
    }
    return acc, cov, ["rotation is a function of link structure only (payload-free nodes)"]


def replay(case):
    if "regroup" in case:
        return check_regroup(case["regroup"])
    if "exprrot" in case:
        return check_expression_rotation(case["exprrot"])
    mode = case.get("idmode", "unique")
    return [(c + ("" if mode == "unique" else f"|ids={mode}"), d)
            for c, d in check_case(S.parse(case["shape"]), case["index"], case.get("cls", "BinaryTreeNode"), mode)]
