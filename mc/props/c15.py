"""C15 - rotation preserves the in-order sequence and link consistency.

Space: every binary tree shape with n nodes (n <= N) x every node of it; each case is run
on freshly built real BinaryTreeNode (and MathExpression) objects."""
from .. import par
from ..acc import Acc, merge_all
from ..gen import shapes as S
from ..oracle.audit import link_audit

LEVEL = "exploration"
BOUND = {"quick": 8, "thorough": 12}


def _classes():
    from mathy_core.tree import BinaryTreeNode
    from mathy_core.expressions import MathExpression

    return {"BinaryTreeNode": BinaryTreeNode, "MathExpression": MathExpression}


def check_case(shape, index, clsname="BinaryTreeNode"):
    """Rotate the index-th node (pre-order) of a fresh tree; return [(core, detail)]."""
    cls = _classes()[clsname]
    root = S.build(shape, cls)
    nodes = S.preorder(root)
    node = nodes[index]
    before = [n.id for n in S.inorder(root)]
    parent = node.parent
    grand = parent.parent if parent is not None else None
    pside = None
    if grand is not None:
        pside = "left" if grand.left is parent else "right"
    nside = None
    if parent is not None:
        nside = "left" if parent.left is node else "right"
    snap = [(n.id, id(n.left), id(n.right), id(n.parent)) for n in nodes]
    out = []
    try:
        ret = node.rotate()
    except Exception as e:  # noqa
        return [("raises:" + type(e).__name__, repr(e))]
    if ret is not node:
        out.append(("return-value", "rotate() did not return the node"))
    if parent is None:
        after = [(n.id, id(n.left), id(n.right), id(n.parent)) for n in nodes]
        if after != snap:
            out.append(("root-rotation-changes-tree", "rotating the root modified links"))
        return out
    new_root = node
    hops = 0
    while new_root.parent is not None and hops < 1000:
        new_root = new_root.parent
        hops += 1
    probs = link_audit(new_root)
    if probs:
        out.append(("links-inconsistent", "; ".join(probs[:3])))
    after = [n.id for n in S.inorder(new_root)] if not probs else None
    if after is not None and after != before:
        out.append(("inorder-changed", f"{before} -> {after}"))
    if parent.parent is not node:
        out.append(("node-not-above-parent", "old parent's parent is not the rotated node"))
    expect_child = "right" if nside == "left" else "left"
    if getattr(node, expect_child) is not parent:
        out.append(("node-not-above-parent", f"old parent is not the {expect_child} child of the node"))
    if node.parent is not grand:
        out.append(("grandparent-link", "node.parent is not the old grandparent"))
    if grand is not None and getattr(grand, pside) is not node:
        out.append(("grandparent-link", f"grandparent.{pside} does not point at the rotated node"))
    # de-duplicate cores
    seen = set()
    res = []
    for c, d in out:
        if c not in seen:
            seen.add(c)
            res.append((c, d))
    return res


def _work(task):
    n, lo, hi, clsname = task
    acc = Acc()
    shp = S.shapes(n)
    for si in range(lo, hi):
        shape = shp[si]
        for i in range(n):
            acc.count("rotations")
            res = check_case(shape, i, clsname)
            if i > 0:
                acc.count("nonroot")
            for core, detail in res:
                acc.violation(core, {"shape": S.show(shape), "index": i, "cls": clsname}, detail)
        if si == lo:
            acc.sample({"shape": S.show(shape), "rotated": "every node", "cls": clsname})
    return acc


def run(tier, seed):
    N = BOUND[tier]
    tasks = []
    for n in range(1, N + 1):
        total = len(S.shapes(n))
        for clsname in ("BinaryTreeNode", "MathExpression"):
            if clsname == "MathExpression" and n > N - 2:
                continue
            for lo, hi in par.chunks(total, 16 if total > 2000 else 1):
                tasks.append((n, lo, hi, clsname))
    k = seed % len(tasks)
    tasks = tasks[k:] + tasks[:k]
    acc = merge_all(par.pmap(_work, tasks))
    nshapes = sum(len(S.shapes(n)) for n in range(1, N + 1))
    cov = {
        "evaluations": acc.n["rotations"],
        "distinct_nontrivial": acc.n["nonroot"],
        "rule": f"all binary tree shapes with 1..{N} nodes (Catalan numbers, {nshapes} shapes) x every node; "
                "each (shape,node) pair is distinct by construction; non-trivial = the node is not the root "
                "(a real rotation happens); root rotations are checked for 'changes nothing'",
        "exhaustive": True,
        "bound": {"max_nodes": N},
    }
    return acc, cov, ["rotation is a function of link structure only (payload-free nodes)"]


def replay(case):
    return check_case(S.parse(case["shape"]), case["index"], case.get("cls", "BinaryTreeNode"))
