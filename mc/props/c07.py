"""C07 - rewritten trees are structurally sound and leave the untouched context intact."""
from . import steps
from .. import sig as SG
from ..explore import rewrite as RW
from ..oracle import audit

LEVEL = "model_checking"


def _follow(root, path):
    n = root
    for c in path:
        n = n.left if c == "L" else n.right
        if n is None:
            return None
    return n


def judge(cur, s, cname, node, result, change, error, before_snap, everything):
    """[(kind, detail)] for one executed transition (cur = tree the copy was cloned from)."""
    out = []
    if error is not None or result is None:
        return out  # judged by C06
    # isolation: the tree the copy was cloned from is not modified
    d = audit.snapshot_diff(before_snap, audit.snapshot(everything))
    if d:
        out.append(("source-tree-modified", d))
    try:
        rroot = RW.get_root(result)
    except Exception as e:  # noqa
        return out + [("result-has-no-root", repr(e))]
    # a rule that returns a NEW tree (the balanced move clones internally) must leave the tree it was handed intact
    handed = RW.LAST.get("handed") if cname == "BM" else None
    if handed is not None and handed is not rroot and not ({id(n) for n in audit.all_nodes(handed)} & {id(n) for n in audit.all_nodes(rroot)}):
        hp = audit.link_audit(handed)
        if hp:
            out.append(("handed-tree-links-broken", "; ".join(hp[:2])))
        elif SG.sig(handed) != RW.LAST.get("handed_sig"):
            out.append(("handed-tree-modified", f"{SG.show(RW.LAST.get('handed_sig'))} -> {SG.show(SG.sig(handed))}"))
    probs = audit.link_audit(rroot)
    if probs:
        out.append(("links-inconsistent", "; ".join(probs[:3])))
        return out
    rs = SG.sig(rroot)
    ar = SG.arity_problems(rs)
    if ar:
        out.append(("arity", "; ".join(ar[:3])))
    shared = {id(n) for n in everything} & {id(n) for n in audit.all_nodes(rroot)}
    if shared:
        out.append(("result-shares-nodes-with-source", f"{len(shared)} node objects are in both trees"))
    if SG.variables(rs) != SG.variables(s):
        out.append(("variable-set-changed", f"{sorted(SG.variables(s))} -> {sorted(SG.variables(rs))}"))
    # the library's own view of the result (its printer) must agree with the links: no operand may live on in a
    # second reference that the rewrite forgot to update
    if not ar:
        try:
            p1 = str(rroot)
            p2 = str(SG.build(rs))
            if p1 != p2:
                out.append(("printer-disagrees-with-links", f"result prints {p1!r}, a tree rebuilt from its links prints {p2!r}"))
        except Exception:  # noqa - printing problems are C04's business
            pass
    # context: everything hanging off the path root -> footprint keeps structure, side and order
    if cname == "BM":
        foot = ""  # the balanced move rewrites at the root (both sides of '=')
        if rs[0] != "=":
            out.append(("equation-lost", f"root became {rs[0]}"))
        else:
            mp = moved_term_problem(s, rs, SG.sig(node), RW.path_of(node))
            if mp:
                out.append(("balanced-move-moved-another-term", mp))
    elif cname == "AG":
        foot = RW.path_of(node.parent) if node.parent is not None else ""
    else:
        foot = RW.path_of(node)
    want_path = foot
    got_path = RW.path_of(result)
    if got_path != want_path:
        out.append(("replacement-misplaced", f"change.result sits at '{got_path}', rewritten position is '{want_path}'"))
    a, b = cur, rroot
    for depth, c in enumerate(foot):
        if b is None:
            out.append(("context-changed", f"path '{foot[:depth]}' no longer exists"))
            break
        if type(a) is not type(b) or SG.sig(a)[1] != SG.sig(b)[1]:
            out.append(("context-changed", f"ancestor at '{foot[:depth]}' changed kind/payload"))
            break
        sib_a = a.right if c == "L" else a.left
        sib_b = b.right if c == "L" else b.left
        if SG.sig(sib_a) != SG.sig(sib_b):
            out.append(("context-changed", f"subtree hanging off '{foot[:depth]}' changed: {SG.show(SG.sig(sib_a))} -> {SG.show(SG.sig(sib_b))}"))
            break
        a = a.left if c == "L" else a.right
        b = b.left if c == "L" else b.right
    return out


def moved_term_problem(s, rs, node_sig, node_path):
    """Balanced move of an addend: exactly the requested term leaves its side and is subtracted on the other
    side (L + t = R  ->  L = R - t).  Returns a detail string if another term was moved."""
    if s[0] != "=" or rs[0] != "=" or not node_path:
        return None
    side = 2 if node_path[0] == "L" else 3
    other = 3 if side == 2 else 2
    want_other = ("-", None, s[other], node_sig)
    if rs[other] == want_other:
        return None
    # division type (coefficient of a product): both sides divided by the node
    if rs[2] is not None and rs[3] is not None and rs[2][0] == "/" and rs[3][0] == "/" and rs[2][3] == node_sig and rs[3][3] == node_sig:
        return None
    return (f"requested term {SG.show(node_sig)} at '{node_path}' of {SG.show(s)}, but the result is {SG.show(rs)}: "
            f"expected {SG.show(want_other)} on the other side")


class V(steps.Visitor):
    def on_state(self, acc, ctx, root, s):
        self.everything = audit.all_nodes(root)
        self.snap = audit.snapshot(self.everything)

    def on_transition(self, acc, ctx, root, s, cname, rule, index, node, result, change, error):
        if ctx.get("inplace"):
            # live-tree mode: there is no separate source tree; the rewritten tree itself must be sound
            if error is not None or result is None:
                return
            res = []
            try:
                rroot = RW.get_root(result)
                probs = audit.link_audit(rroot)
                if probs:
                    res.append(("links-inconsistent", "; ".join(probs[:3])))
                else:
                    rs = SG.sig(rroot)
                    ar = SG.arity_problems(rs)
                    if ar:
                        res.append(("arity", "; ".join(ar[:3])))
                    elif SG.variables(rs) != SG.variables(s):
                        res.append(("variable-set-changed", f"{sorted(SG.variables(s))} -> {sorted(SG.variables(rs))}"))
                    elif cname == "BM" and ctx.get("node_sig") is not None:
                        mp = moved_term_problem(s, rs, ctx["node_sig"], ctx.get("node_path", ""))
                        if mp:
                            res.append(("balanced-move-moved-another-term", mp))
            except SG.Cyclic as e:
                res.append(("links-inconsistent", f"cycle: {e}"))
            for kind, detail in res:
                acc.violation(f"{cname}|{kind}|{ctx.get('nb')}|in-place", {"text": ctx["text"], "trace": ctx["trace"], "cfg": cname, "index": index,
                                                                          "inplace": True}, f"{detail}  [live state {SG.show(s)}]")
            return
        res = judge(root, s, cname, node, result, change, error, self.snap, self.everything)
        for kind, detail in res:
            core = f"{cname}|{kind}|{RW.neighbourhood(node)}"
            acc.violation(core, {"text": ctx["text"], "trace": ctx["trace"], "cfg": cname, "index": index,
                                 "dup_ids": ctx.get("dup_ids", False)}, f"{detail}  [state {SG.show(s)}]")
        if any(k == "source-tree-modified" for k, _ in res):
            self.snap = audit.snapshot(self.everything)
        if RW.path_of(node):
            acc.count("below_root")
        if acc.n["transitions"] % 6000 == 1:
            acc.sample({"start": ctx["text"], "trace": ctx["trace"] + [[cname, index]], "footprint_path": RW.path_of(node)})


def run(tier, seed):
    depth = 1  # thorough: depth 2 over the quick start set (below), depth 1 over the larger families
    t1, h1 = steps.start_texts(tier, "expr")
    t2, h2 = steps.start_texts(tier, "eqn")
    texts = t1[:h1] + t2[:h2] + t1[h1:] + t2[h2:]
    acc = steps.run(V, texts, depth, "any", seed, h1 + h2)
    if tier == "quick":
        acc.merge(steps.run(V, steps.small_texts("expr") + steps.small_texts("eqn"), 2, "any", seed, 0, key="small"))
    else:
        q1, g1 = steps.start_texts("quick", "expr")
        q2, g2 = steps.start_texts("quick", "eqn")
        acc.merge(steps.run(V, q1[g1:] + q2[g2:], 2, "any", seed, 0, key="quickset"))
    acc.merge(steps.run(V, steps.small_texts("expr") + steps.small_texts("eqn"), "inplace", "any", seed, 0, key="small"))
    # ... and the same two live steps without listing the nodes again in between (stale r_index / memories)
    acc.merge(steps.run(V, steps.small_texts("eqn") + steps.small_texts("expr")[::4], "inplace-stale", "any", seed, 0, key="stale"))
    # trees assembled from a piece and its clone: identical subtrees share node ids
    dup = [f"{a} = {b} + {a}" for a in ("2x", "3x^2", "x + 1", "2 * y") for b in ("y", "3", "2x")]
    dup += [f"{a} + {b} + {a}" for a in ("2x", "x^2", "4 * y", "2 + x") for b in ("y", "3")]
    dup += [f"({a}) * ({a})" for a in ("x + 1", "2x", "x + y")] + [f"({a}) / ({a}) + ({a})" for a in ("2x", "x + 1")]
    dup += [t for t in steps.small_texts("expr") if t.count("x") >= 2][::6]
    acc.merge(steps.run(V, dup, "dupids", "any", seed, 0, key="dup"))
    cov = {
        "states": len(acc.keys),
        "transitions": acc.n["transitions"],
        "traces_validated_against_impl": acc.n["transitions"],
        "exhaustive": True,
        "bound": {"start_texts": len(texts), "closure_depth": depth},
        "transitions_below_root": acc.n["below_root"],
        "per_config": {k[8:]: v for k, v in sorted(acc.n.items()) if k.startswith("applied:")},
        "explanation": "every applicable (configuration, node) transition of every state, executed on clone_from_root: link audit, "
                       "arity, no shared node objects, variable set, replacement position, every subtree hanging off the path "
                       "root->footprint unchanged on the same side, and a full snapshot of the source tree compared before/after",
    }
    return acc, cov, ["footprint root = the node (its parent for the associative rotation, the root for the balanced move)"]


def _replay_direct(case):
    if case.get("dup_ids") or case.get("inplace"):
        return []  # reproduced by re-exploring the seed (unified ids / live-tree mode)
    roots = RW.run_trace(case["text"], case["trace"])
    cur = roots[-1]
    everything = audit.all_nodes(cur)
    snap = audit.snapshot(everything)
    cur, s, cname, rule, index, node, result, change, error = None, None, None, None, None, None, None, None, None
    cur = roots[-1]
    s = SG.sig(cur)
    cname, index = case["cfg"], case["index"]
    rule = RW.config(cname)
    node = RW.inorder(cur)[index]
    try:
        result, change = RW.step(cur, rule, index)
    except Exception as e:  # noqa
        error = e
    return [(f"{cname}|{k}|{RW.neighbourhood(node)}", d) for k, d in judge(cur, s, cname, node, result, change, error, snap, everything)]


def replay(case):
    """three-level replay, each level in a fresh process (see steps.layered_replay)"""
    return steps.layered_replay(case, _replay_direct, V)
