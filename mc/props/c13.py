"""C13 - cloning yields an identical, independent tree and locates the cloned node.

Space: every tree with <= k nodes built through the public constructors over {=,+,-,*,/,^} and the
one-operand kinds {neg, !, sgn, abs} with the operand on either side; parser-built start trees and their
one-step rewrite results; every node of each tree for clone_from_root."""
import math
from functools import lru_cache

from . import steps
from .. import par
from .. import sig as SG
from ..acc import Acc, merge_all
from ..explore import rewrite as RW
from ..oracle import audit

LEVEL = "exploration"
LEAVES = [("c", ("i", "2"), None, None), ("c", ("i", "-3"), None, None), ("c", ("f", (0.5).hex()), None, None),
          ("v", "x", None, None), ("v", "y", None, None)]
LEAVES_SMALL = [("c", ("i", "2"), None, None), ("v", "x", None, None)]
UN = ["neg", "!", "sgn", "abs"]
BIN = ["+", "-", "*", "/", "^", "="]


@lru_cache(maxsize=None)
def sigs(n, small):
    leaves = LEAVES_SMALL if small else LEAVES
    if n == 1:
        return tuple(leaves)
    out = []
    for inner in sigs(n - 1, small):
        for u in UN:
            out.append((u, False, None, inner))
            out.append((u, True, inner, None))
    for k in range(1, n - 1):
        for a in sigs(k, small):
            for b in sigs(n - 1 - k, small):
                for op in BIN:
                    out.append((op, None, a, b))
    return tuple(out)


def _outcome(fn):
    try:
        v = fn()
        if isinstance(v, float) and math.isnan(v):
            return ("nan",)
        try:
            if v != v:
                return ("nan",)
        except Exception:  # noqa
            pass
        return ("ok", repr(v) if isinstance(v, str) else (type(v).__name__ in ("int", "float"), str(v)))
    except Exception as e:  # noqa
        return ("raise", type(e).__name__)


def ids_of(root):
    return [(RW.path_of(n), n.id) for n in audit.all_nodes(root)]


def check_tree(tree):
    """[(kind, detail)] for one real tree"""
    out = []
    s = SG.sig(tree)
    env = {"x": 3, "y": 5}
    nodes = audit.all_nodes(tree)
    snap0 = audit.snapshot(nodes)
    try:
        c = tree.clone()
    except Exception as e:  # noqa
        return [("clone-raises:" + type(e).__name__, repr(e)[:100])]
    if audit.snapshot(nodes) != snap0:
        out.append(("clone-modifies-original", audit.snapshot_diff(snap0, audit.snapshot(nodes))))
    cs = SG.sig(c)
    if cs != s:
        # name the first difference class
        def strip(z):
            if z is None:
                return None
            return (z[0], None if z[0] in SG.UNARY else z[1], strip(z[2]), strip(z[3]))
        if strip(cs) == strip(s):
            out.append(("operand-side-flag-lost", f"{SG.show(s)}: clone differs only in the one-operand side flag"))
        else:
            out.append(("clone-differs", f"{SG.show(s)} cloned as {SG.show(cs)}"))
    if link := audit.link_audit(c):
        out.append(("clone-links-inconsistent", "; ".join(link[:2])))
    if sorted(ids_of(c)) != sorted(ids_of(tree)):
        out.append(("node-ids-differ", "ids per position differ"))
    cn = audit.all_nodes(c)
    if {id(n) for n in cn} & {id(n) for n in nodes}:
        out.append(("clone-shares-nodes", "a node object is in both trees"))
    if _outcome(lambda: str(tree)) != _outcome(lambda: str(c)):
        out.append(("prints-differently", f"{_outcome(lambda: str(tree))} vs {_outcome(lambda: str(c))}"))
    from fractions import Fraction
    from ..oracle import exact
    safe = exact.evaluate(s, {k: Fraction(v) for k, v in env.items()})[0] is not exact.SKIP
    if safe and _outcome(lambda: tree.evaluate(env)) != _outcome(lambda: c.evaluate(env)):
        out.append(("evaluates-differently", f"{SG.show(s)}: {_outcome(lambda: tree.evaluate(env))} vs {_outcome(lambda: c.evaluate(env))}"))
    # independence, both directions: mutate one, the other keeps its snapshot
    for mutated, kept, label in ((c, tree, "clone"), (None, None, "original")):
        if label == "original":
            kept = tree.clone()
            mutated = tree
        knodes = audit.all_nodes(kept)
        ksnap = audit.snapshot(knodes)
        ksig = SG.sig(kept)
        for n in audit.all_nodes(mutated):
            if hasattr(n, "value") and n.value is not None:
                n.value = n.value + 1
            if getattr(n, "identifier", None) is not None:
                n.identifier = "q"
            if n.left is not None and n.right is not None:
                a, b = n.left, n.right
                n.set_left(b)
                n.set_right(a)
            n.classes.append("touched")
            n.set_changed()
        if audit.snapshot(knodes) != ksnap or SG.sig(kept) != ksig:
            out.append((f"mutating-{label}-affects-the-other", SG.show(s)))
        if label == "clone":
            pass
    return out


def check_from_root(tree):
    """clone_from_root on every node: same position, same kind/id, whole tree copied, nothing shared"""
    out = []
    s = SG.sig(tree)
    nodes = audit.all_nodes(tree)
    ids = {id(n) for n in nodes}
    for n in nodes:
        path = RW.path_of(n)
        try:
            r = n.clone_from_root()
        except Exception as e:  # noqa
            out.append(("clone_from_root-raises:" + type(e).__name__, f"{SG.show(s)} at '{path}': {e!r}"[:200]))
            continue
        if r is None or type(r) is not type(n) or r.id != n.id:
            out.append(("clone_from_root-returns-other-node", f"{SG.show(s)} at '{path}'"))
            continue
        if RW.path_of(r) != path:
            out.append(("clone_from_root-wrong-position", f"{SG.show(s)}: node at '{path}', copy at '{RW.path_of(r)}'"))
        rr = RW.get_root(r)
        if SG.sig(rr) != s:
            out.append(("clone_from_root-incomplete-copy", f"{SG.show(s)} -> {SG.show(SG.sig(rr))}"))
        if {id(x) for x in audit.all_nodes(rr)} & ids:
            out.append(("clone_from_root-shares-nodes", SG.show(s)))
        if SG.sig(tree) != s:
            out.append(("clone_from_root-modifies-original", SG.show(s)))
            break
    return out


def check_after_foreign_call(tree):
    """The two-argument form a.clone_from_root(other) is not claimed by the property, but whatever it does it
    must not poison later plain calls: after every such call, n.clone_from_root() is judged as usual."""
    out = []
    nodes = audit.all_nodes(tree)
    for a in nodes[:4]:
        for d in nodes[:4]:
            if a is d:
                continue
            try:
                a.clone_from_root(d)
            except Exception:  # noqa
                pass
            res = check_from_root(tree)
            if res:
                k, det = res[0]
                out.append((k + "|after-a-two-argument-call", det))
                return out
    return out


def check_big_tree():
    """a tree of ~140 nodes: clone_from_root from every node, an in-place regroup near the root, and again"""
    out = []
    text = " + ".join(str(i) for i in range(1, 71))
    tree = RW.parse(text).clone()
    res = check_from_root(tree)
    if res:
        return [(res[0][0] + "|140-node-sum", res[0][1][:200])]
    # the same history on fresh trees, one node at a time (the sweep above has already visited every node once)
    for pick in (-1, 0, 68, -3):
        t2 = RW.parse(text).clone()
        nodes = RW.inorder(t2)
        n = nodes[pick]
        try:
            n.clone_from_root()
            rule0 = RW.config("AG")
            tg = next((m for m in RW.inorder(t2) if rule0.can_apply_to(m) and m.parent is not None and m.parent.parent is None), None)
            if tg is not None:
                rule0.apply_to(tg)
            r = n.clone_from_root()
            if RW.path_of(r) != RW.path_of(n) or SG.sig(RW.get_root(r)) != SG.sig(RW.get_root(n)):
                out.append(("clone_from_root-wrong-position|140-node-sum-after-in-place-regroup", f"node {pick}"))
        except Exception as e:  # noqa
            out.append((f"clone_from_root-raises:{type(e).__name__}|140-node-sum-after-in-place-regroup", f"node {pick}: {e!r}"[:160]))
            break
    rule = RW.config("AG")
    target = next((n for n in RW.inorder(tree) if rule.can_apply_to(n) and n.parent is not None and n.parent.parent is None), None)
    if target is not None:
        rule.apply_to(target)
        tree = RW.get_root(target)
        res = check_from_root(tree)
        if res:
            out.append((res[0][0] + "|140-node-sum-after-in-place-regroup", res[0][1][:200]))
    return out


def degenerate_sigs():
    """one-operand nodes that have no operand yet, flag on either side (alone and under a binary node)"""
    out = []
    for u in UN:
        for flag in (False, True):
            leaf = (u, flag, None, None)
            out.append(leaf)
            out.append(("+", None, ("v", "x", None, None), leaf))
            out.append(("*", None, leaf, ("c", ("i", "2"), None, None)))
    return out


def check_degenerate(s):
    out = []
    tree = SG.build(s)
    try:
        c = tree.clone()
    except Exception as e:  # noqa
        return [("clone-raises:" + type(e).__name__, SG.show(s))]
    if SG.sig(c) != s:
        out.append(("operand-side-flag-lost", f"{SG.show(s)}: the clone of a one-operand node without operand has another side flag"))
    return out


def dedupe(res):
    seen, out = set(), []
    for k, d in res:
        if k not in seen:
            seen.add(k)
            out.append((k, d))
    return out


def _work(task):
    kind = task[0]
    acc = Acc()
    if kind == "extra":
        acc.count("trees")
        for k, d in check_big_tree():
            acc.violation(k, {"sig": None, "mode": "big", "task": ["extra"]}, d)
        for s in degenerate_sigs():
            acc.count("trees")
            for k, d in check_degenerate(s):
                acc.violation(f"{k}|{RW.pat(s, 1)}|no-operand", {"sig": s, "mode": "degenerate"}, d)
        for n in (2, 3):
            for s in sigs(n, True):
                acc.count("trees")
                for k, d in check_after_foreign_call(SG.build(s)):
                    acc.violation(f"{k}|{RW.pat(s, 1)}", {"sig": s, "mode": "foreign"}, d)
        return acc
    if kind == "sigs":
        _, n, small, lo, hi = task
        all_s = sigs(n, small)
        for i in range(lo, hi):
            s = all_s[i]
            acc.count("trees")
            acc.count("nodes", n)
            res = dedupe(check_tree(SG.build(s)) + check_from_root(SG.build(s)))
            for k, d in res:
                acc.violation(f"{k}|{RW.pat(s, 1)}", {"sig": s, "task": list(task)}, d)
            if n > 1:
                acc.count("nontrivial")
            if i == lo and n >= 3:
                acc.sample(SG.show(s))
    else:
        _, texts = task
        for text in texts:
            try:
                root = RW.parse(text)
            except Exception:  # noqa
                continue
            trees = [(root, [])]
            nodes = RW.inorder(root)
            for cname, rule in RW.configs():
                for index, node in enumerate(nodes):
                    try:
                        if rule.can_apply_to(node):
                            res, _ = RW.step(root, rule, index)
                            trees.append((RW.get_root(res), [[cname, index]]))
                    except Exception:  # noqa
                        pass
            for t, trace in trees:
                acc.count("trees")
                acc.count("nontrivial")
                acc.count("nodes", len(audit.all_nodes(t)))
                s = SG.sig(t)
                res = dedupe(check_tree(SG.build(s)) + check_from_root(t))
                for k, d in res:
                    acc.violation(f"{k}|{RW.pat(s, 1)}", {"text": text, "trace": trace, "task": ["texts", list(texts[: texts.index(text) + 1])]}, d)
    return acc



def _disturb_task(_):
    from ..explore import disturb

    acc = Acc()
    acc.count("disturbance_rounds", 7)
    for core, detail in disturb.differential('clones', disturb.clone_battery):
        acc.violation(core, {"disturb": True}, detail)
    return acc

def run(tier, seed):
    K = 4 if tier == "quick" else 5
    tasks = []
    for n in range(1, K + 1):
        total = len(sigs(n, False))
        tasks += [("sigs", n, False, lo, hi) for lo, hi in par.chunks(total, 64 if total > 5000 else 1)]
    for n in range(K + 1, K + 3 if tier == "quick" else K + 2):  # quick: 5-6 nodes over 2 leaves; thorough: 6 nodes
        total = len(sigs(n, True))
        tasks += [("sigs", n, True, lo, hi) for lo, hi in par.chunks(total, 96 if total > 5000 else 1)]
    tasks.append(("extra",))
    t1, _ = steps.start_texts("quick", "expr")
    t2, _ = steps.start_texts("quick", "eqn")
    texts = (t1 + t2)[:: (12 if tier == "quick" else 3)]
    tasks += [("texts", texts[i::48]) for i in range(48)]
    k = seed % len(tasks)
    tasks = tasks[k:] + tasks[:k]
    # every task in its own freshly forked process: class- or module-level state of the code under test then
    # depends only on the task, and a violation is replayed by re-running its task the same way
    acc = merge_all(par.pmap(_work, tasks, fresh=True))
    acc.merge(par.run_fresh(_disturb_task, None))  # differential: a fixed battery before / after unrelated calls
    cov = {
        "evaluations": acc.n["trees"],
        "distinct_nontrivial": acc.n["nontrivial"],
        "rule": f"all trees with <= {K} nodes over 5 leaves, 6 binary kinds and 4 one-operand kinds x operand side (constructors), all "
                f"trees with {K + 1}..{K + 2} nodes over 2 leaves, parser-built start trees and their one-step rewrite results; for each: "
                "clone() compared node by node, both directions of mutation, clone_from_root() on EVERY node; distinct_nontrivial = "
                "trees with more than one node (all distinct by construction)",
        "exhaustive": True,
        "nodes_used_for_clone_from_root": acc.n["nodes"],
    }
    return acc, cov, ["only the self form node.clone_from_root() is claimed, as the property states"]


def replay(case):
    if isinstance(case, dict) and case.get("disturb"):
        from ..explore import disturb
        return disturb.differential('clones', disturb.clone_battery)
    want = case.get("_core")
    try:
        got = par.run_fresh(_replay_direct, case)  # own process: must not pollute the next level
    except Exception:  # noqa
        got = []
    if got and (want is None or any(c == want for c, _ in got)):
        return got
    if "task" in case:
        def tup(x):
            return tuple(tup(i) for i in x) if isinstance(x, list) and x and not isinstance(x[0], str) else x
        task = case["task"]
        task = tuple(task) if task[0] != "texts" else ("texts", list(task[1]))
        a = par.run_fresh(_work, task)
        again = [(c, e["examples"][0]["detail"]) for c, e in a.viol.items()]
        if want is not None and any(c == want for c, _ in again):
            return [(c, d) for c, d in again if c == want]
        return again or got
    return got


def _replay_direct(case):
    if "sig" in case:
        def tup(x):
            return tuple(tup(i) for i in x) if isinstance(x, list) else x
        if case.get("mode") == "big":
            return check_big_tree()
        s = tup(case["sig"])
        if case.get("mode") == "degenerate":
            return [(f"{k}|{RW.pat(s, 1)}|no-operand", d) for k, d in check_degenerate(s)]
        if case.get("mode") == "foreign":
            return [(f"{k}|{RW.pat(s, 1)}", d) for k, d in check_after_foreign_call(SG.build(s))]
        res = dedupe(check_tree(SG.build(s)) + check_from_root(SG.build(s)))
    else:
        t = RW.run_trace(case["text"], case["trace"])[-1]
        s = SG.sig(t)
        res = dedupe(check_tree(SG.build(s)) + check_from_root(t))
    return [(f"{k}|{RW.pat(s, 1)}", d) for k, d in res]
