"""C18 - tree layout satisfies the tidy-tree invariants and is repeatable.

Space: every binary tree shape with <= N nodes x unit multipliers; call histories of <= 3 layout calls on
the same node objects (same units, other units, an inner subtree first)."""
from .. import par
from ..acc import Acc, merge_all
from ..gen import shapes as S

LEVEL = "model_checking"
BOUND = {"quick": 10, "thorough": 13}
UNITS = [(1.0, 1.0), (2.0, 3.0), (0.5, 1.0), (1 / 3, 1 / 7), (1e-7, 1e-7), (7e-6, 1e6)]
EPS = 1e-9


def _nodes_with_depth(root):
    out = []

    def rec(n, d):
        if n is None:
            return
        rec(n.left, d + 1)
        out.append((n, d))  # in-order
        rec(n.right, d + 1)

    rec(root, 0)
    return out


def coords(root):
    return [(n.x, n.y) for n in S.preorder(root)]


def invariants(root, m, ux, uy):
    """[(kind, detail)] for one laid-out tree (tolerances are relative to the unit in use)"""
    out = []
    EPS = 1e-9 * min(abs(ux), abs(uy), 1.0)  # noqa: shadows the module constant on purpose
    nd = _nodes_with_depth(root)
    for n, d in nd:
        if n.x is None or n.y is None:
            return [("coordinate-missing", f"node {n.id}")]
    for n, d in nd:
        if abs(n.y - d * uy) > EPS:
            out.append(("y-is-not-depth-times-unit", f"node {n.id} depth {d} y={n.y}"))
            break
    for n, d in nd:
        if n.left is not None and not (n.left.x < n.x - EPS):
            out.append(("left-child-not-left-of-parent", f"node {n.id} x={n.x} left child x={n.left.x}"))
            break
    for n, d in nd:
        if n.right is not None and not (n.right.x > n.x + EPS):
            out.append(("right-child-not-right-of-parent", f"node {n.id} x={n.x} right child x={n.right.x}"))
            break
    for n, d in nd:
        if n.left is not None and n.right is not None and abs((n.left.x + n.right.x) / 2 - n.x) > EPS:
            out.append(("parent-not-centred", f"node {n.id} x={n.x} children {n.left.x}, {n.right.x}"))
            break
    levels = {}
    for n, d in nd:
        levels.setdefault(d, []).append(n)
    bad = None
    for d, row in levels.items():
        for a, b in zip(row, row[1:]):
            if b.x - a.x < ux - EPS:
                bad = (d, a, b)
                break
        if bad:
            break
    if bad:
        d, a, b = bad
        kind = "level-order-violated" if b.x <= a.x + EPS else "level-neighbours-closer-than-one-unit"
        out.append((kind, f"depth {d}: in-order neighbours {a.id} x={a.x}, {b.id} x={b.x} (unit {ux})"))
    xs = [n.x for n, _ in nd]
    ys = [n.y for n, _ in nd]
    want = {"minX": min(xs), "maxX": max(xs), "minY": min(ys), "maxY": max(ys)}
    want["width"] = want["maxX"] - want["minX"]
    want["height"] = want["maxY"] - want["minY"]
    want["centerX"] = want["minX"] + want["width"] / 2
    want["centerY"] = want["minY"] + want["height"] / 2
    for k, v in want.items():
        g = getattr(m, k, None)
        if g is None or abs(g - v) > EPS:
            out.append(("measurement-is-not-the-bounding-box", f"{k}={g} expected {v}"))
            break
    return out


def fresh_coords(shape, ux, uy):
    from mathy_core.layout import TreeLayout
    from mathy_core.tree import BinaryTreeNode

    root = S.build(shape, BinaryTreeNode)
    TreeLayout().layout(root, ux, uy)
    return coords(root)


def check_shape(shape, only=None):
    from mathy_core.layout import TreeLayout
    from mathy_core.tree import BinaryTreeNode

    out = []

    def bad(kind, detail):
        if only is None or kind == only:
            out.append((kind, detail))

    base = None
    for ux, uy in UNITS:
        root = S.build(shape, BinaryTreeNode)
        try:
            m = TreeLayout().layout(root, ux, uy)
        except Exception as e:  # noqa
            bad("layout-raises:" + type(e).__name__, repr(e)[:100])
            return out
        for k, d in invariants(root, m, ux, uy):
            bad(k, f"units ({ux},{uy}): {d}")
        c = coords(root)
        if base is None:
            base = c
        else:
            # coordinates scale with the units
            for (x0, y0), (x1, y1) in zip(base, c):
                if abs(x0 * ux - x1) > EPS * ux or abs(y0 * uy - y1) > EPS * uy:
                    bad("units-do-not-scale-coordinates", f"units ({ux},{uy})")
                    break
    # mirrored shape gives mirrored x
    mroot = S.build(S.mirror(shape), BinaryTreeNode)
    try:
        TreeLayout().layout(mroot)
        mc = {n.id: (n.x, n.y) for n in S.preorder(mroot)}
        # map nodes by mirrored path
        def paths(r, flip):
            res = {}

            def rec(n, p):
                if n is None:
                    return
                res[p] = (n.x, n.y)
                rec(n.left, p + ("R" if flip else "L"))
                rec(n.right, p + ("L" if flip else "R"))

            rec(r, "")
            return res

        r0 = S.build(shape, BinaryTreeNode)
        TreeLayout().layout(r0)
        a = paths(r0, False)
        b = paths(mroot, True)
        for p, (x, y) in a.items():
            x2, y2 = b[p]
            if abs(x + x2) > EPS or abs(y - y2) > EPS:
                bad("mirror-not-mirrored", f"node at path '{p}': x={x}, mirrored tree has x={x2}")
                break
    except Exception as e:  # noqa
        bad("layout-raises:" + type(e).__name__, repr(e)[:100])
    # call histories on the same node objects
    histories = [
        [("root", 1.0, 1.0), ("root", 1.0, 1.0)],
        [("root", 2.0, 3.0), ("root", 1.0, 1.0)],
        [("inner", 1.0, 1.0), ("root", 1.0, 1.0)],
        [("root", 1.0, 1.0), ("inner", 1.0, 1.0), ("root", 1.0, 1.0)],
        [("root", 1.0, 1.0), ("root", 0.5, 1.0), ("root", 1.0, 1.0)],
    ]
    want = fresh_coords(shape, 1.0, 1.0)
    for h in histories:
        root = S.build(shape, BinaryTreeNode)
        nodes = S.preorder(root)
        inner = nodes[1] if len(nodes) > 1 else root
        try:
            for who, ux, uy in h:
                m = TreeLayout().layout(root if who == "root" else inner, ux, uy)
        except Exception as e:  # noqa
            bad("layout-raises-on-repeat:" + type(e).__name__, f"history {h}: {e!r}"[:160])
            continue
        got = coords(root)
        if any(abs(a[0] - b[0]) > EPS or abs(a[1] - b[1]) > EPS for a, b in zip(got, want)):
            bad("repeat-layout-differs", f"history {[x[0] + str(x[1:]) for x in h]}: {got} vs fresh {want}")
            break
    # node ids are payload (clones share them): a tree whose nodes all carry the same id lays out like any other
    try:
        twin = S.build(shape, BinaryTreeNode)
        for k, nd in enumerate(S.preorder(twin)):
            nd.id = "same" if k % 2 else "other"
        TreeLayout().layout(twin)
        if any(abs(a[0] - b[0]) > EPS or abs(a[1] - b[1]) > EPS for a, b in zip(coords(twin), want)):
            bad("layout-depends-on-node-ids", f"{coords(twin)} vs {want}")
    except Exception as e:  # noqa
        bad("layout-raises:" + type(e).__name__, f"duplicate ids: {e!r}"[:120])
    # shape changes between layouts: lay out (a subtree), change the shape in place below it, lay out an ancestor
    n_nodes = S.size(shape)
    if 3 <= n_nodes <= 9:
        for start_at, mutate_at in ((1, 1), (0, 1), (1, 2), (0, 0)):
            root = S.build(shape, BinaryTreeNode)
            nodes = S.preorder(root)
            if max(start_at, mutate_at) >= len(nodes):
                continue
            try:
                TreeLayout().layout(nodes[start_at])
                m_ = nodes[mutate_at]
                a_, b_ = m_.left, m_.right
                m_.set_left(b_)          # mirror the children of one node through the public setters
                m_.set_right(a_)
                TreeLayout().layout(root)

                def shape_of(nd):
                    return None if nd is None else (shape_of(nd.left), shape_of(nd.right))

                fresh = fresh_coords(shape_of(root), 1.0, 1.0)
                got = coords(root)
                if any(abs(x[0] - y[0]) > EPS or abs(x[1] - y[1]) > EPS for x, y in zip(got, fresh)):
                    bad("layout-after-shape-change-differs", f"layout(node {start_at}), children of node {mutate_at} exchanged, layout(root): "
                        f"{got} vs a fresh tree of the new shape {fresh}")
                    break
            except Exception as e:  # noqa
                bad("layout-raises-on-repeat:" + type(e).__name__, f"shape-change history: {e!r}"[:140])
                break
    # one long-lived TreeLayout object: every call must report the true bounding box of what it just laid out
    shared = TreeLayout()
    big = S.build(((((None, None), (None, None)), None), ((None, None), ((None, None), (None, None)))), BinaryTreeNode)
    seq = [("big", 3.0, 3.0), ("self", 1.0, 1.0), ("self", 2.0, 3.0), ("self", 1.0, 1.0), ("big", 1.0, 1.0), ("self", 0.5, 1.0)]
    root = S.build(shape, BinaryTreeNode)
    for who, ux, uy in seq:
        tree = big if who == "big" else root
        try:
            m = shared.layout(tree, ux, uy)
        except Exception as e:  # noqa
            bad("layout-raises-on-repeat:" + type(e).__name__, f"shared TreeLayout, call {who} ({ux},{uy}): {e!r}"[:160])
            break
        probs = invariants(tree, m, ux, uy)
        if probs:
            k, d = probs[0]
            bad(k if who == "self" else k, f"shared TreeLayout object, after {seq[:seq.index((who, ux, uy)) + 1]}: {d}")
            break
    seen, res = set(), []
    for k, d in out:
        if k not in seen:
            seen.add(k)
            res.append((k, d))
    return res


def classify(shape):
    if S.is_full(shape):
        return "full"
    return "one-child"


def _work(task):
    n, lo, hi = task
    acc = Acc()
    shp = S.shapes(n)
    for si in range(lo, hi):
        shape = shp[si]
        acc.count("shapes")
        acc.count("layout_calls", len(UNITS) + 2 + 11 + 6)
        acc.count("shapes:" + classify(shape))
        if n > 1:
            acc.count("nontrivial")
        for kind, detail in check_shape(shape):
            acc.violation(f"{kind}|{S.show(shape)}", {"shape": S.show(shape), "only": kind}, detail)
        if si == lo and n >= 5:
            acc.sample({"shape": S.show(shape), "units": UNITS, "histories": 5})
    return acc



def _disturb_task(_):
    from ..explore import disturb

    acc = Acc()
    acc.count("disturbance_rounds", 7)
    for core, detail in disturb.differential('layouts', disturb.layout_battery):
        acc.violation(core, {"disturb": True}, detail)
    return acc

def run(tier, seed):
    N = BOUND[tier]
    tasks = []
    for n in range(1, N + 1):
        total = len(S.shapes(n))
        tasks += [(n, lo, hi) for lo, hi in par.chunks(total, 64 if total > 1000 else 1)]
    k = seed % len(tasks)
    tasks = tasks[k:] + tasks[:k]
    acc = merge_all(par.pmap(_work, tasks))
    acc.merge(par.run_fresh(_disturb_task, None))  # differential: a fixed battery before / after unrelated calls
    cov = {
        "states": acc.n["shapes"],
        "transitions": acc.n["layout_calls"],
        "traces_validated_against_impl": acc.n["shapes"],
        "exhaustive": True,
        "bound": {"max_nodes": N, "units": UNITS},
        "full_binary_shapes": acc.n["shapes:full"], "shapes_with_one_child_nodes": acc.n["shapes:one-child"],
        "explanation": f"every binary tree shape with 1..{N} nodes: layout under 3 unit settings (invariants, scaling), the mirrored "
                       "shape, 5 call histories of <= 3 layout calls on the same node objects compared with a freshly built tree, and a "
                       "6-call history on ONE TreeLayout object alternating with another tree and other units (bounding box after each); "
                       "every layout call is an execution of the implementation",
    }
    return acc, cov, ["'one unit apart' is measured between in-order neighbours of one depth, in units of unit_x_multiplier"]


def replay(case):
    if isinstance(case, dict) and case.get("disturb"):
        from ..explore import disturb
        return disturb.differential('layouts', disturb.layout_battery)
    shape = S.parse(case["shape"])
    return [(f"{k}|{S.show(shape)}", d) for k, d in check_shape(shape, case.get("only"))]
