"""C05 - evaluation computes the mathematically correct number.

Space: every tree with <= 3 (quick) / <= 5 (thorough, reduced leaves) nodes over {+,-,*,/,^,neg,abs,sgn,!}
whose leaves are constants or variables carrying values of a magnitude alphabet that brackets every
width boundary the implementation has (int64, float64), plus the unbound-variable and equation clauses.
Oracle: Python's arbitrary-precision integers for the exact class, Python IEEE floats for the float class."""
import itertools
import math

from .. import par
from ..acc import Acc, merge_all

LEVEL = "exploration"

MAGS = [0, 1, -1, 2, -3, 10, 2 ** 31, 2 ** 62, 2 ** 63, 2 ** 64 + 3, 10 ** 20, 0.5, -2.5, 1e308, 2.0, -0.0, 1e16, 2 ** 53 + 1]
EXPS = [0, 1, 2, 3, 20, 40, 64, 100]
FACTS = [0, 1, 5, 20, 25, 170, 1000]
SMALL = [0, 1, -3, 2, 10, 2 ** 63, 10 ** 20, 0.5]
BIN = ["+", "-", "*", "/", "^"]

NAN = "NAN"
SKIP = "SKIP"
BIG = "BIG"  # astronomically large exact result: the implementation is not even run
MAX_BITS = 200000


def build(t):
    """t = ('c', value) | ('v', name) | (op, a, b) | (unary, a)  -> real tree via public constructors"""
    from mathy_core import expressions as E

    k = t[0]
    if k == "c":
        return E.ConstantExpression(t[1])
    if k == "v":
        return E.VariableExpression(t[1])
    if k in ("neg", "abs", "sgn", "!"):
        cls = {"neg": E.NegateExpression, "abs": E.AbsExpression, "sgn": E.SgnExpression, "!": E.FactorialExpression}[k]
        return cls(build(t[1]))
    cls = {"+": E.AddExpression, "-": E.SubtractExpression, "*": E.MultiplyExpression, "/": E.DivideExpression,
           "^": E.PowerExpression, "=": E.EqualExpression}[k]
    return cls(build(t[1]), build(t[2]))


def show(t):
    k = t[0]
    if k == "c":
        return repr(t[1])
    if k == "v":
        return t[1]
    if len(t) == 2:
        return f"{k}({show(t[1])})"
    return f"({show(t[1])} {k} {show(t[2])})"


class Ref:
    def __init__(self):
        self.nops = 0
        self.scale = 0.0

    def note(self, v):
        if isinstance(v, float):
            a = abs(v)
            if a > self.scale:
                self.scale = a
        elif isinstance(v, int) and v.bit_length() < 1000:
            a = abs(float(v))
            if a > self.scale:
                self.scale = a
        return v

    def ev(self, t, env):
        k = t[0]
        if k == "c":
            return t[1]
        if k == "v":
            return env[t[1]]
        self.nops += 1
        if len(t) == 2:
            a = self.ev(t[1], env)
            if a is SKIP or a is BIG:
                return a
            if a is NAN:
                return NAN if k == "neg" else SKIP
            if k == "neg":
                return -a
            if k == "abs":
                return abs(a)
            if k == "sgn":
                return (a > 0) - (a < 0)
            if isinstance(a, int) and a >= 0:
                if a > 2000:
                    return BIG
                return math.factorial(a)
            return SKIP  # factorial of a non-natural: unspecified by the property
        a = self.ev(t[1], env)
        b = self.ev(t[2], env)
        if a is BIG or b is BIG:
            return BIG
        if a is SKIP or b is SKIP:
            return SKIP
        if k == "/":
            if b is NAN:
                return NAN
            if b == 0:
                return NAN  # division by zero yields NaN (also NaN / 0)
            if a is NAN:
                return NAN
        if a is NAN or b is NAN:
            return NAN if k in ("+", "-", "*") else SKIP
        try:
            if k == "+":
                r = a + b
            elif k == "-":
                r = a - b
            elif k == "*":
                r = a * b
            elif k == "/":
                r = a / b
            else:
                if isinstance(a, int) and isinstance(b, int):
                    if b >= 0:
                        if a.bit_length() * b > MAX_BITS:
                            return BIG
                        r = a ** b
                    else:
                        if a == 0:
                            return SKIP
                        r = float(a) ** b  # integer to a negative integer power: judged as a float result
                else:
                    if a < 0 and float(b) != int(float(b)):
                        return SKIP
                    if a == 0 and b < 0:
                        return SKIP
                    r = float(a) ** float(b)
        except (OverflowError, ZeroDivisionError):
            return SKIP
        if isinstance(r, complex):
            return SKIP
        if isinstance(r, float) and (math.isinf(r) or math.isnan(r)):
            return SKIP
        if isinstance(r, int) and r.bit_length() > MAX_BITS:
            return BIG
        return self.note(r)


def variables(t, out=None):
    out = set() if out is None else out
    if t[0] == "v":
        out.add(t[1])
    elif t[0] != "c":
        for c in t[1:]:
            variables(c, out)
    return out


def check(t, env):
    """[(kind, detail)] for tree description t under assignment env"""
    ref = Ref()
    want = ref.ev(t, env)
    if want is BIG:
        return [], "too-big-not-run"
    tree = build(t)
    try:
        got = tree.evaluate(dict(env))
        err = None
    except Exception as e:  # noqa
        got, err = None, e
    out = []
    if want is SKIP:
        return out, "skip"
    if err is not None:
        if isinstance(err, OverflowError) or want is not SKIP:
            return [("raises:" + type(err).__name__, f"{show(t)} at {env}: {err!r}; expected {str(want)[:60]}")], "judged"
    if want is NAN:
        try:
            ok = math.isnan(got)
        except Exception:  # noqa
            ok = False
        if not ok:
            out.append(("division-by-zero-not-nan", f"{show(t)} at {env} = {got!r}"))
        return out, "nan"
    if isinstance(want, int) and not isinstance(want, bool):
        try:
            same = bool(got == want)
        except Exception:  # noqa
            same = False
        if not same:
            out.append(("inexact-integer-result", f"{show(t)} at {env} = {got!r} (type {type(got).__name__}), exact value {str(want)[:80]}"))
        return out, "exact"
    try:
        g = float(got)
    except Exception as e:  # noqa
        return [("non-numeric-result", f"{show(t)} at {env} = {got!r}")], "float"
    tol = 4 * max(1, ref.nops) * math.ulp(max(ref.scale, abs(want), 1e-300))
    if not (abs(g - want) <= tol):
        out.append(("float-result-off", f"{show(t)} at {env} = {got!r}, IEEE reference {want!r} (tolerance {tol:.3g})"))
    return out, "float"


def check_unbound(t):
    """a variable without a value is an error, never a default; 0 is a value"""
    out = []
    vs = sorted(variables(t))
    if not vs:
        return out
    tree = build(t)
    v = vs[0]
    full = {x: 2 for x in vs}
    for label, ctx in (("None", None), ("empty", {}), ("missing", {k: 2 for k in vs if k != v} or {"other": 1}),
                       ("value-None", dict(full, **{v: None}))):
        try:
            got = tree.evaluate(ctx)
            out.append((f"unbound-variable-defaulted|context={label}", f"{show(t)} evaluated to {got!r} with context {ctx}"))
        except Exception:  # noqa
            pass
    return out


def check_equation(a, b, env):
    """equation evaluates to the common value or raises when the sides differ (exact class only)"""
    ra, rb = Ref(), Ref()
    wa, wb = ra.ev(a, env), rb.ev(b, env)
    if not (isinstance(wa, int) and isinstance(wb, int)) or isinstance(wa, bool) or isinstance(wb, bool):
        return [], "skip"
    tree = build(("=", a, b))
    try:
        got = tree.evaluate(dict(env))
        err = None
    except Exception as e:  # noqa
        got, err = None, e
    t = ("=", a, b)
    if wa == wb:
        if err is not None:
            return [("equation-raises-though-sides-agree", f"{show(t)} at {env}: {err!r}")], "eq"
        if not (got == wa):
            return [("equation-wrong-common-value", f"{show(t)} at {env} = {got!r}, sides are {wa}")], "eq"
    else:
        if err is None:
            return [("equation-with-different-sides-returns", f"{show(t)} at {env} = {got!r}; sides {str(wa)[:40]} and {str(wb)[:40]}")], "eq"
    return [], "eq"


def leaves(values):
    out = []
    for v in values:
        out.append((("c", v), {}))
        out.append((("v", "x"), {"x": v}))
    return out


def cases(tier):
    """yield (tree, env) descriptions, simplest first"""
    L = leaves(MAGS)
    for lf, env in L:
        yield lf, env
        for u in ("neg", "abs", "sgn"):
            yield (u, lf), env
    for f in FACTS:
        yield ("!", ("c", f)), {}
    # 3 nodes: op over two leaves (second variable is y)
    R = [(("c", v), {}) for v in MAGS + EXPS] + [(("v", "y"), {"y": v}) for v in MAGS + EXPS]
    for op in BIN:
        for (a, ea), (b, eb) in itertools.product(L, R):
            yield (op, a, b), dict(ea, **eb)
    # 4 nodes: unary over binary, binary over unary
    S = leaves(SMALL)
    S2 = [(("c", v), {}) for v in SMALL + [3, 64]] + [(("v", "y"), {"y": v}) for v in SMALL + [3, 64]]
    for op in BIN:
        for (a, ea), (b, eb) in itertools.product(S, S2):
            env = dict(ea, **eb)
            for u in ("neg", "abs", "sgn"):
                yield (u, (op, a, b)), env
                yield (op, (u, a), b), env
    # 5 nodes
    vals = (MAGS[:11] + [0.5, 2.0, 2 ** 53 + 1]) if tier == "thorough" else SMALL
    T = leaves(vals)
    T2 = [(("c", v), {}) for v in vals + [3, 64]]
    T3 = [(("v", "y"), {"y": v}) for v in vals + [3]] + [(("c", v), {}) for v in vals + [3]]
    for o1, o2 in itertools.product(BIN, BIN):
        for (a, ea), (b, eb), (c, ec) in itertools.product(T, T2, T3):
            env = dict(ea, **eb)
            env.update(ec)
            yield (o1, (o2, a, b), c), env
            yield (o1, a, (o2, b, c)), env


HUGE = [10 ** 400, 10 ** 399, 2 ** 1100, 3 * 2 ** 1100, math.factorial(171), math.factorial(170), 2 ** 600]


def huge_cases():
    """operands beyond the float range: int / int must still be the correctly rounded quotient"""
    for a, b in itertools.product(HUGE, HUGE):
        yield ("/", ("c", a), ("c", b)), {}
        yield ("/", ("v", "x"), ("v", "y")), {"x": a, "y": b}
        yield ("/", ("*", ("v", "x"), ("c", 3)), ("v", "y")), {"x": a, "y": b}
        yield ("-", ("v", "x"), ("v", "y")), {"x": a, "y": b}
    for n, m in ((171, 170), (200, 198), (300, 299)):
        yield ("/", ("!", ("c", n)), ("!", ("c", m))), {}


def twin_cases():
    """value-equal operands of different numeric type evaluated one after the other in ONE process (float
    first, then the integer twin, and the other way round): the integer result must stay exact whatever was
    evaluated before"""
    bases = [94906267, 3 ** 20, 10 ** 8 + 1, 10 ** 16, 2 ** 53 + 2, 7, 12]
    out = []
    for order in ("float-first", "int-first"):
        for b in bases:
            for k in (2, 3, 5):
                fcase = (("^", ("v", "x"), ("c", k)), {"x": float(b)})
                icase = (("+", ("^", ("v", "y"), ("c", k)), ("c", 1)), {"y": b})
                fmul = (("*", ("v", "x"), ("v", "x")), {"x": float(b)})
                imul = (("+", ("*", ("v", "y"), ("v", "y")), ("c", 1)), {"y": b})
                fk = (("^", ("c", float(b)), ("c", float(k))), {})
                ik = (("^", ("c", b), ("c", k)), {})
                seq = [fcase, icase, fmul, imul, fk, ik]
                out += seq if order == "float-first" else [icase, fcase, imul, fmul, ik, fk, icase]
    return out


EVAL_BATTERY = ["(-8)^0.5", "x^0.5", "(0 - 8)^(1 / 3)", "1 / 0", "x / 0 + 1", "2^3 * (4 + 1)", "(4 + 1) * 2^3", "10^20 + 1", "x^3 - y", "2^-3", "sgn(x) + 7",
                "5! / 3!", "0.1 + 0.2", "x * 0.5 - 3", "7 = 7", "2 = 3", "x = 2 + y", "(x + y)^2 / (x - y)", "-x^2", "4x^2 + 2x + 1"]


def _eval_battery():
    from mathy_core.parser import ExpressionParser

    out = []
    # sub-expressions first (no root has been evaluated yet in this round)
    probe = ExpressionParser().parse("x + 2^3 * (4 + 1) - 7!")
    for n in probe.to_list("preorder")[1:]:
        try:
            v = n.evaluate()
            r = ("value", repr(v))
        except Exception as e:  # noqa
            r = ("raise", type(e).__name__)
        out.append(("subtree " + str(n), "None", r))
    for t in EVAL_BATTERY:
        for env in (None, {"x": -2, "y": 5}, {"x": 2 ** 62, "y": 3}, {"x": 0.5, "y": 0.25}):
            try:
                v = ExpressionParser().parse(t).evaluate(env)
                r = ("value", type(v).__name__ if not isinstance(v, float) else "float", "nan" if v != v else repr(v))
            except Exception as e:  # noqa
                r = ("raise", type(e).__name__)
            out.append((t, repr(env), r))
    return out


def check_disturbed_evaluation():
    from ..explore import disturb

    return [("evaluation-depends-on-earlier-unrelated-calls", f"after {name}: {before} became {after}")
            for name, i, before, after in disturb.run(_eval_battery)]


def float_equation_cases():
    """equations between float-valued sides built from + - * / only (IEEE-exact in both evaluators): they hold
    when the two doubles are equal and must raise when they differ, even in the last place"""
    sides = ["0.1 + 0.2", "0.3", "x / 3", "x * (1 / 3)", "0.1 * 3", "0.5 + 0.25", "0.75", "x * 0.1", "x / 10", "1 / 3 + 1 / 3", "2 / 3",
             "x + 0.1 - 0.1", "x", "0.5x", "x / 2"]
    envs = [{"x": 5}, {"x": 0.3}, {"x": 1e16}, {"x": 7.1}]
    for a, b in itertools.product(sides, sides):
        for env in envs:
            yield a, b, env


def check_float_equation(a, b, env):
    from mathy_core.parser import ExpressionParser

    def ref(text):
        t = ExpressionParser().parse(text)
        from .. import sig as SG
        return _ref_float(SG.sig(t), env)

    try:
        wa, wb = ref(a), ref(b)
    except Exception:  # noqa
        return []
    if not (isinstance(wa, float) or isinstance(wb, float)):
        return []
    try:
        got = ExpressionParser().parse(f"{a} = {b}").evaluate(dict(env))
        err = None
    except Exception as e:  # noqa
        got, err = None, e
    if wa == wb:
        if err is not None:
            return [("equation-raises-though-sides-agree", f"{a} = {b} at {env}: both sides are {wa!r}, raised {err!r}")]
    else:
        if err is None:
            return [("equation-with-different-sides-returns", f"{a} = {b} at {env}: sides are {wa!r} and {wb!r}, returned {got!r}")]
    return []


def _ref_float(s, env):
    """Python-float evaluation of a signature over + - * / and negation (same IEEE operations, same order)"""
    tag, payload, ls, rs = s
    if tag == "c":
        from .. import sig as SG
        return SG.const_value(payload)
    if tag == "v":
        return env[payload]
    if tag == "neg":
        return -_ref_float(ls if ls is not None else rs, env)
    a, b = _ref_float(ls, env), _ref_float(rs, env)
    if tag == "+":
        return a + b
    if tag == "-":
        return a - b
    if tag == "*":
        return a * b
    if tag == "/":
        return a / b
    raise ValueError(tag)


INPLACE_TEXTS = None


def inplace_texts():
    from ..gen import exprs as X

    out = X.same_op_groupings(3, ["2", "3", "x", "65537", "0.5"], ("+", "*"))
    out += X.same_op_groupings(4, ["2", "3", "x"], ("+", "*"))
    out += ["2 * (3 + x)", "(2 + 3) * x", "x / 3 + 2 / 3", "4x + 2x", "x^2 * x^3", "7 - 3 + 2", "2 + 3 - x", "(2 + 3) * (4 + x)"]
    return out


def check_eval_history(text):
    """evaluation is a function of the CURRENT tree: evaluate, rewrite the live tree in place with every
    applicable rule, evaluate again (same objects) - the second value must be the value of the new tree"""
    from fractions import Fraction

    from .. import sig as SG
    from ..explore import rewrite as RW
    from ..oracle import exact

    out = []
    env = {"x": 7, "y": 5}
    try:
        probe = RW.parse(text)
    except Exception:  # noqa
        return out
    todo = []
    for cname, rule in RW.configs():
        for index, node in enumerate(RW.inorder(probe)):
            try:
                if rule.can_apply_to(node):
                    todo.append((cname, index))
            except Exception:  # noqa
                pass
    for cname, index in todo:
        tree = RW.parse(text).clone()
        for ctx in (None, env):
            try:
                tree.evaluate(ctx)
            except Exception:  # noqa
                pass
        try:
            res = RW.config(cname).apply_to(RW.inorder(tree)[index]).result
            tree = RW.get_root(res)
        except Exception:  # noqa
            continue
        s = SG.sig(tree)
        want, st = exact.evaluate(s, {k: Fraction(v) for k, v in env.items()})
        if want in (exact.UNDEF, exact.SKIP) or st.inexact:
            continue
        try:
            got = tree.evaluate(dict(env))
        except Exception as e:  # noqa
            out.append(("evaluate-after-rewrite-raises:" + type(e).__name__, f"{text!r} after {cname}@{index}: {e!r}"))
            continue
        ok = False

        def exact_class(z):
            if z is None:
                return True
            if z[0] == "c":
                return z[1][0] == "i"
            if z[0] in ("v", "+", "-", "*", "neg"):
                return exact_class(z[2]) and exact_class(z[3])
            return False

        try:
            if exact_class(s) and want.denominator == 1:
                ok = bool(got == want.numerator)
            else:
                ok = abs(Fraction(float(got)) - want) <= Fraction(1, 10 ** 9) * max(1, abs(want))
        except Exception:  # noqa
            ok = False
        if not ok:
            out.append(("stale-value-after-in-place-rewrite", f"{text!r}: after {cname} at in-order {index} the tree is {SG.show(s)} = {want}, evaluate() returns {got!r}"))
    seen, res_ = set(), []
    for k, d in out:
        if k not in seen:
            seen.add(k)
            res_.append((k, d))
    return res_


_CASES = []


def _work(task):
    if task[0] == "history":
        acc = Acc()
        texts = inplace_texts()
        for i in range(task[1], task[2]):
            acc.count("evaluations")
            acc.count("eval_history_texts")
            for kind, detail in check_eval_history(texts[i]):
                acc.violation(kind, {"mode": "history", "text": texts[i], "chunk": list(task)}, detail)
        return acc
    if task[0] == "disturb":
        acc = Acc()
        acc.count("evaluations", len(EVAL_BATTERY) * 4 * 8)
        acc.count("disturbance_rounds", 7)
        for kind, detail in check_disturbed_evaluation():
            acc.violation(kind, {"mode": "disturb", "chunk": ["disturb"]}, detail)
        return acc
    if task[0] == "floateq":
        acc = Acc()
        for a, b, env in float_equation_cases():
            acc.count("evaluations")
            acc.count("float_equations")
            for kind, detail in check_float_equation(a, b, env):
                acc.violation(kind + "|float-sides", {"mode": "floateq", "a": a, "b": b, "env": env, "chunk": ["floateq"]}, detail)
        return acc
    if task[0] == "twins":
        acc = Acc()
        for t, env in twin_cases():
            acc.count("evaluations")
            acc.count("twin_evaluations")
            res, cls = check(t, env)
            for kind, detail in res:
                acc.violation(f"{kind}|{t[0]}|after-value-equal-twin", {"tree": t, "env": env, "mode": "value", "chunk": ["twins"]}, detail)
        return acc
    lo, hi = task
    acc = Acc()
    for i in range(lo, hi):
        t, env = _CASES[i]
        acc.count("evaluations")
        res, cls = check(t, env)
        acc.count("class:" + cls)
        if cls in ("exact", "float", "nan", "judged"):
            acc.key(hash((repr(t), repr(sorted(env.items())))))
        for kind, detail in res:
            core = f"{kind}|{t[0]}"
            acc.violation(core, {"tree": t, "env": env, "mode": "value", "chunk": [lo, hi]}, detail)
        if cls == "too-big-not-run":
            continue
        if env and t[0] in ("v",) + tuple(BIN) and i % 3 == 0:
            acc.count("unbound_checks")
            for kind, detail in check_unbound(t):
                acc.violation(kind, {"tree": t, "env": env, "mode": "unbound"}, detail)
        if len(t) == 3 and i % 2 == 0:
            rr, cls2 = check_equation(t[1], t[2], env)
            if cls2 == "eq":
                acc.count("equations")
            for kind, detail in rr:
                acc.violation(kind, {"tree": t, "env": env, "mode": "equation"}, detail)
        if i % 40000 == 7:
            acc.sample({"tree": show(t), "assignment": {k: repr(v) for k, v in env.items()}})
    return acc


def _load_cases(tier):
    _CASES[:] = list(cases(tier)) + list(huge_cases())


def run(tier, seed):
    _load_cases(tier)
    n = len(_CASES)
    parts = par.chunks(n, 160)
    k = seed % len(parts)
    parts = parts[k:] + parts[:k]
    nt = len(inplace_texts())
    parts = list(parts) + [("history", lo, hi) for lo, hi in par.chunks(nt, 16)] + [("twins",), ("disturb",), ("floateq",)]
    # every chunk runs in its own freshly forked process: module-level state of the code under test (caches)
    # then depends only on the chunk, and a violation is replayed by re-running its chunk the same way
    acc = merge_all(par.pmap(_work, parts, fresh=True))
    cov = {
        "evaluations": acc.n["evaluations"],
        "distinct_nontrivial": len(acc.keys),
        "rule": "all trees with <= 3 nodes over the full magnitude alphabet (each leaf as a constant and as a variable value), all 4-node "
                "unary/binary combinations and all 5-node binary/binary trees over a reduced alphabet; distinct_nontrivial = distinct "
                "(tree, assignment) pairs whose result was judged against the reference (exact integer, IEEE float within 4 ulp per "
                "operation of the largest intermediate, or NaN for division by zero); the rest fall in classes the property leaves "
                "unspecified (overflow to infinity, factorial of a non-natural, negative base to a fractional power)",
        "exhaustive": True,
        "classes": {k[6:]: v for k, v in acc.n.items() if k.startswith("class:")},
        "unbound_variable_checks": acc.n["unbound_checks"], "equation_checks": acc.n["equations"],
        "evaluate_rewrite_in_place_evaluate_texts": acc.n["eval_history_texts"],
        "value_equal_twin_evaluations_in_one_process": acc.n["twin_evaluations"],
        "float_equations": acc.n["float_equations"], "disturbance_rounds_of_the_evaluation_battery": acc.n["disturbance_rounds"],
        "magnitudes": [repr(m) for m in MAGS], "exponents": EXPS, "factorials": FACTS,
    }
    return acc, cov, ["Python int arithmetic is the exact reference; Python float arithmetic is the IEEE reference (same operation order)"]


def _tup(x):
    return tuple(_tup(i) for i in x) if isinstance(x, list) else x


def replay(case):
    """the recorded case on its own; if that does not reproduce (module-level state of the code under test,
    e.g. a cache filled by earlier evaluations), its whole chunk is re-run in a freshly forked process"""
    want = case.get("_core")
    got = par.run_fresh(_replay_direct, case)  # own process: must not pollute the next level
    if got and (want is None or any(c == want for c, _ in got)):
        return got
    if "chunk" in case:
        if not _CASES:
            _load_cases("thorough" if case.get("tier") == "thorough" else "quick")
        chunk = case["chunk"]
        a = par.run_fresh(_work, tuple(chunk))
        again = [(c, e["examples"][0]["detail"]) for c, e in a.viol.items()]
        if want is not None and any(c == want for c, _ in again):
            return [(c, d) for c, d in again if c == want]
        return again or got
    return got


def _replay_direct(case):
    if case.get("mode") == "history":
        return check_eval_history(case["text"])
    if case.get("mode") == "disturb":
        return check_disturbed_evaluation()
    if case.get("mode") == "floateq":
        return [(k + "|float-sides", d) for k, d in check_float_equation(case["a"], case["b"], case["env"])]
    t, env = _tup(case["tree"]), case["env"]
    if case["mode"] == "unbound":
        return check_unbound(t)
    if case["mode"] == "equation":
        return check_equation(t[1], t[2], env)[0]
    return [(f"{k}|{t[0]}", d) for k, d in check(t, env)[0]]
