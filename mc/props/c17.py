"""C17 - generated problems are always valid and contain what they promise.

E-choice: the harness owns the `random` object of mathy_core.problems; every call is a choice point with a
finite menu; all executions with <= B departures from a (fair) default answer are explored, under three
default policies, for every generator x parameter setting x both pretty-number modes.  The choice model is
bound to the code by replaying recorded answers of the real random.Random(seed) and requiring identical
output."""
import itertools
import random as _random

from .. import par
from .. import sig as SG
from ..acc import Acc, merge_all
from ..explore import choice as CH
from ..oracle import reflex, refgram

LEVEL = "model_checking"
POLICIES = ("first", "last", "cycle")


def settings(tier):
    """(generator name, kwargs, promises_like_pair)"""
    out = []
    for nt in (2, 3, 4, 6, 9, 18, 21):
        for op in (None, "+", "-", ["+", "-"]):
            for optional_var in (False, True):
                for noise_terms in (None, 2, 6) if nt in (4, 9) else (None, 2):
                    promise = (op is not None) and not optional_var
                    out.append(("gen_simplify_multiple_terms",
                                dict(num_terms=nt, op=op, optional_var=optional_var, noise_terms=noise_terms), promise))
    for nt, scale in ((3, 0.9), (4, 0.875), (6, 0.5), (5, 0.99), (9, 0.7)):
        out.append(("gen_simplify_multiple_terms", dict(num_terms=nt, op="+", inner_terms_scaling=scale), True))
        out.append(("gen_simplify_multiple_terms", dict(num_terms=nt, op="-", inner_terms_scaling=scale, noise_terms=1), True))
    for (lo, hi) in ((16, 26), (2, 3), (3, 6), (25, 26)):
        for easy in (True, False):
            for powers in (False, True):
                out.append(("gen_combine_terms_in_place", dict(min_terms=lo, max_terms=hi, easy=easy, powers=powers), True))
    for (lo, hi) in ((5, 8), (3, 4), (8, 12)):
        for blockers in (1, 2, 3):
            for easy in (True, False):
                for powers in (False, True):
                    out.append(("gen_commute_haystack",
                                dict(min_terms=lo, max_terms=hi, commute_blockers=blockers, easy=easy, powers=powers), True))
    for nb in (1, 2, 3, 5):
        out.append(("gen_move_around_blockers_one", dict(number_blockers=nb), True))
        out.append(("gen_move_around_blockers_two", dict(number_blockers=nb), True))
    for (lo, hi) in ((1, 2), (2, 2), (1, 3)):
        for simple in (True, False):
            for like in (1.0, 0.0, 0.5):
                out.append(("gen_binomial_times_binomial",
                            dict(min_vars=lo, max_vars=hi, simple_variables=simple, like_variables_probability=like), False))
                out.append(("gen_binomial_times_monomial",
                            dict(min_vars=lo, max_vars=hi, simple_variables=simple, like_variables_probability=like), False))
    return out


def addends(s, out=None):
    out = [] if out is None else out
    if s[0] in ("+", "-"):
        addends(s[2], out)
        addends(s[3], out)
    else:
        out.append(s)
    return out


def term_key(s):
    """(variable, exponent) of a natural-order one-variable term, 'const' for numbers, None otherwise"""
    if s[0] == "neg":
        return term_key(s[3] if s[3] is not None else s[2])
    if s[0] == "c":
        return "const"
    if s[0] == "v":
        return (s[1], None)
    if s[0] == "^" and s[2][0] == "v" and s[3][0] == "c":
        return (s[2][1], s[3][1])
    if s[0] == "*" and s[2][0] == "c":
        return term_key(s[3])
    return None


def independent_like_pair(text):
    ref = refgram.parse(reflex.lex(text))
    keys = [term_key(a) for a in addends(ref)]
    keys = [k for k in keys if k is not None]
    return len(keys) != len(set(keys))


SINGLE_PAIR = ("gen_combine_terms_in_place", "gen_commute_haystack", "gen_move_around_blockers_one")


def term_letter(s):
    k = term_key(s)
    return k[0] if isinstance(k, tuple) else None


def focus_variable_reused(text):
    """generators that hide ONE pair of like terms among distractors draw the distractors' variables with the
    focus variable excluded: the letter of the like pair must not occur in any other term"""
    ref = refgram.parse(reflex.lex(text))
    adds = addends(ref)
    keys = [term_key(a) for a in adds]
    pairs = {k for k in keys if isinstance(k, tuple) and keys.count(k) >= 2}
    for k in pairs:
        letter = k[0]
        others = [a for a, kk in zip(adds, keys) if kk != k and letter in SG.variables(a)]
        if others:
            return f"focus variable {letter!r} also occurs in distractor {SG.show(others[0])}"
    return None


def judge_problem(result, promise, gen=None):
    """[(kind, detail)]"""
    from mathy_core.parser import ExpressionParser
    from mathy_core.util import has_like_terms

    if not (isinstance(result, tuple) and len(result) == 2):
        return [("bad-return-shape", repr(result)[:80])]
    text, complexity = result
    if not isinstance(text, str):
        return [("bad-return-shape", repr(result)[:80])]
    try:
        tree = ExpressionParser().parse(text)
    except Exception as e:  # noqa
        return [("text-not-accepted-by-parser", f"{text!r}: {type(e).__name__}")]
    out = []
    try:
        if not complexity > 0:
            out.append(("complexity-not-positive", f"{text!r}: {complexity!r}"))
    except Exception:  # noqa
        out.append(("complexity-not-positive", f"{text!r}: {complexity!r}"))
    if promise:
        try:
            ind = independent_like_pair(text)
        except Exception:  # noqa
            ind = None
        if ind is False:
            out.append(("promised-like-terms-absent", f"{text!r}: no two addends share variable and exponent"))
        elif gen in SINGLE_PAIR:
            try:
                reuse = focus_variable_reused(text)
            except Exception:  # noqa
                reuse = None
            if reuse:
                out.append(("distractor-reuses-the-focus-variable", f"{text!r}: {reuse}"))
        else:
            try:
                if not has_like_terms(tree):
                    out.append(("has_like_terms-denies-promised-pair", f"{text!r}"))
            except Exception as e:  # noqa
                out.append(("has_like_terms-raises", f"{text!r}: {e!r}"[:150]))
    return out


def run_one(gen, kwargs, pretty, oracle):
    """call the generator with `oracle` installed as mathy_core.problems.random"""
    from mathy_core import problems as P

    CH.install(P)
    P.use_pretty_numbers(pretty)
    try:
        with CH.owned(oracle):
            return ("ok", getattr(P, gen)(**kwargs))
    except CH.Divergence:
        raise
    except Exception as e:  # noqa
        return ("raise", e)
    finally:
        P.use_pretty_numbers(True)


def describe(gen, kwargs, pretty):
    kw = ",".join(f"{k}={v!r}" for k, v in kwargs.items())
    return f"{gen}({kw}) pretty={pretty}"


def explore_setting(acc, gen, kwargs, promise, pretty, policy, bound, cap):
    def execute(prefix):
        orc = CH.Oracle(prefix, policy)
        status, val = run_one(gen, kwargs, pretty, orc)
        acc.count("executions")
        acc.count("choice_points", len(orc.trace))
        if status == "raise":
            core = f"generator-raises:{type(val).__name__}|{gen}|{str(val)[:60]}"
            acc.violation(core, {"kind": "gen", "gen": gen, "kwargs": kwargs, "pretty": pretty, "policy": policy,
                                 "choices": [t[2] for t in orc.trace], "bound": bound, "cap": cap}, f"{describe(gen, kwargs, pretty)}: {val!r}"[:300])
        else:
            acc.key(hash(val[0]) if isinstance(val, tuple) else 0)
            for kind, detail in judge_problem(val, promise, gen):
                acc.violation(f"{kind}|{gen}", {"kind": "gen", "gen": gen, "kwargs": kwargs, "pretty": pretty, "policy": policy,
                                                "choices": [t[2] for t in orc.trace], "bound": bound, "cap": cap},
                              f"{describe(gen, kwargs, pretty)}: {detail}")
            if acc.n["executions"] % 3000 == 1:
                acc.sample({"call": describe(gen, kwargs, pretty), "policy": policy, "choices": [t[2] for t in orc.trace][:40],
                            "output": val[0]})
        return orc

    st = CH.explore(execute, bound, cap)
    if st["capped"]:
        acc.count("capped_settings")
    acc.n["max_points"] = max(acc.n["max_points"], st["max_points"])
    return st


class Stutter(CH.Oracle):
    """a starving oracle: randint repeats its previous answer by default.  No real seed behaves like this for long,
    so a ValueError ('unable to fulfil') is tolerated under it - but whatever IS returned must still be right."""

    def randint(self, a, b):
        key = (a, b)
        prev = self._prev.get(key)
        size = b - a + 1
        menu = [a, b, (a + b) // 2] + ([prev] if prev is not None else [])
        menu = list(dict.fromkeys(menu))
        default = menu.index(prev) if prev is not None else 0
        v = self._pick("randint", menu, default)
        self._prev[key] = v
        self.log.append(("randint", v))
        return v


def check_rand_vars_starved(acc):
    from mathy_core import problems as P

    for n, excl in ((23, ["x"]), (12, list("abcdfghjklmn")), (3, ["x", "y"]), (20, ["a", "b", "c", "d"])):
        def execute(prefix):
            orc = Stutter(prefix, "first")
            CH.install(P)
            got = None
            try:
                with CH.owned(orc):
                    got = P.get_rand_vars(n, list(excl))
            except CH.Divergence:
                raise
            except Exception:  # noqa - tolerated under starvation
                pass
            acc.count("executions")
            acc.count("rand_vars_executions")
            if got is not None:
                case = {"kind": "rand_vars_starved", "n": n, "excl": excl, "choices": [t[2] for t in orc.trace]}
                if len(got) != n or len(set(got)) != len(got):
                    acc.violation("get_rand_vars-not-distinct|starved", case, f"{got}")
                if set(got) & set(excl):
                    acc.violation("get_rand_vars-ignores-exclusion|starved", case, f"{sorted(set(got) & set(excl))} returned although excluded")
            return orc

        CH.explore(execute, 1, 3000)


def check_rand_vars(acc, bound):
    """requested variable sets are distinct and respect exclusions"""
    from mathy_core import problems as P

    for n, excl, common in ((1, [], False), (3, ["x"], False), (5, ["a", "b", "c"], False), (23, ["x"], False), (24, [], False),
                            (2, ["x"], True), (3, [], True), (12, list("abcdfghjklmn"), False)):
        for policy in POLICIES:
            def execute(prefix):
                orc = CH.Oracle(prefix, policy)
                CH.install(P)
                try:
                    with CH.owned(orc):
                        got = P.get_rand_vars(n, list(excl), common)
                    err = None
                except CH.Divergence:
                    raise
                except Exception as e:  # noqa
                    got, err = None, e
                acc.count("executions")
                acc.count("rand_vars_executions")
                case = {"kind": "rand_vars", "n": n, "excl": excl, "common": common, "policy": policy, "choices": [t[2] for t in orc.trace]}
                if err is not None:
                    acc.violation(f"get_rand_vars-raises:{type(err).__name__}|n={n},excluded={len(excl)},common={common}", case, repr(err)[:120])
                else:
                    if len(got) != n or len(set(got)) != len(got):
                        acc.violation("get_rand_vars-not-distinct", case, f"{got}")
                    if set(got) & set(excl):
                        acc.violation("get_rand_vars-ignores-exclusion", case, f"{got} vs excluded {excl}")
                return orc

            CH.explore(execute, bound, 20000)


def check_term_templates(acc):
    """requested term templates are pairwise distinct and unlike every excluded template"""
    from mathy_core import problems as P

    T = P.MathyTermTemplate
    cases = [(3, None, False, 0.5), (6, [T("x", 2), T("y", 2)], True, 1.0), (4, [T("x", None)], True, 0.0), (5, [T("a", 2), T("b", 3)], False, 1.0),
             (6, None, True, 0.5), (3, [T("x", 2), T("y", 2), T("z", 2)], True, 1.0)]
    for n, excl, common, prob in cases:
        for policy in POLICIES:
            def execute(prefix):
                orc = CH.Oracle(prefix, policy)
                CH.install(P)
                got = err = None
                try:
                    with CH.owned(orc):
                        got = P.get_rand_term_templates(n, excl, common, prob)
                except CH.Divergence:
                    raise
                except Exception as e:  # noqa
                    err = e
                acc.count("executions")
                acc.count("term_template_executions")
                if got is not None:
                    keys = [P.mathy_term_string(variable=t.variable, exponent=t.exponent) for t in got]
                    bad = [P.mathy_term_string(variable=t.variable, exponent=t.exponent) for t in (excl or [])]
                    case = {"kind": "templates", "choices": [t[2] for t in orc.trace]}
                    if len(set(keys)) != len(keys) or len(keys) != n:
                        acc.violation("get_rand_term_templates-not-distinct", case, f"{keys}")
                    if set(keys) & set(bad):
                        acc.violation("get_rand_term_templates-returns-excluded-template", case, f"{sorted(set(keys) & set(bad))} of {keys}, excluded {bad}")
                return orc

            CH.explore(execute, 2, 6000)


def check_split(acc):
    from mathy_core import problems as P

    for v in range(0, 65):
        for idx in range(5):
            orc = CH.Oracle([idx], "first")
            CH.install(P)
            try:
                with CH.owned(orc):
                    a, b = P.split_in_two_random(v)
                ok = (a + b == v) and a <= b and a >= 0
                err = None
            except Exception as e:  # noqa
                ok, err = False, e
            acc.count("executions")
            acc.count("split_executions")
            if not ok:
                acc.violation("split_in_two_random-does-not-sum", {"kind": "split", "v": v, "idx": idx}, f"v={v}: {err!r}")


def conformance(acc, seeds):
    """the scripted oracle reproduces the real RNG: recorded answers replayed => identical output"""
    from mathy_core import problems as P

    sett = settings("quick")
    for seed in seeds:
        gen, kwargs, _ = sett[seed % len(sett)]
        pretty = (seed // len(sett)) % 2 == 0
        rec = CH.Recorder(_random.Random(seed))
        s1, v1 = run_one(gen, kwargs, pretty, rec)
        orc = CH.Oracle(answers=rec.log)
        try:
            s2, v2 = run_one(gen, kwargs, pretty, orc)
        except CH.Divergence as e:
            acc.violation("harness:conformance-divergence", {"kind": "conf", "seed": seed}, repr(e))
            continue
        same = (s1 == s2) and (repr(v1) == repr(v2)) and len(orc.log) == len(rec.log)
        acc.count("conformance_runs")
        if same:
            acc.count("conformance_ok")
        else:
            acc.violation("harness:conformance-mismatch", {"kind": "conf", "seed": seed}, f"{describe(gen, kwargs, pretty)} seed {seed}: {v1!r} vs {v2!r}")
        # real-seed outputs are judged too (they are executions of the implementation)
        if s1 == "ok":
            for kind, detail in judge_problem(v1, sett[seed % len(sett)][2], gen):
                acc.violation(f"{kind}|{gen}", {"kind": "seed", "seed": seed}, f"seed {seed} {describe(gen, kwargs, pretty)}: {detail}")
        else:
            acc.violation(f"generator-raises:{type(v1).__name__}|{gen}|{str(v1)[:60]}", {"kind": "seed", "seed": seed},
                          f"seed {seed} {describe(gen, kwargs, pretty)}: {v1!r}")


_SETTINGS = []


def _work(task):
    acc = Acc()
    kind = task[0]
    if kind == "setting":
        _, i, pretty, policy, bound, cap = task
        gen, kwargs, promise = _SETTINGS[i]
        explore_setting(acc, gen, kwargs, promise, pretty, policy, bound, cap)
    elif kind == "vars":
        check_rand_vars(acc, task[1])
        check_rand_vars_starved(acc)
        check_term_templates(acc)
        check_split(acc)
    else:
        conformance(acc, task[1])
    return acc



def _disturb_task(_):
    from ..explore import disturb

    acc = Acc()
    acc.count("disturbance_rounds", 7)
    for core, detail in disturb.differential('generated-problems', disturb.generator_battery):
        acc.violation(core, {"disturb": True}, detail)
    return acc

def run(tier, seed):
    _SETTINGS[:] = settings(tier)
    bound = 1 if tier == "quick" else 2
    cap = 4000 if tier == "quick" else 60000
    tasks = []
    for i in range(len(_SETTINGS)):
        for pretty in (True, False):
            for policy in POLICIES:
                tasks.append(("setting", i, pretty, policy, bound, cap))
    tasks.append(("vars", 2))
    K = 400 if tier == "quick" else 5000
    tasks += [("conf", list(range(s, K, 16))) for s in range(16)]
    k = seed % len(tasks)
    tasks = tasks[k:] + tasks[:k]
    # one freshly forked process per task: module-level state of the generators depends only on the task
    acc = merge_all(par.pmap(_work, tasks, fresh=True))
    acc.merge(par.run_fresh(_disturb_task, None))  # differential: a fixed battery before / after unrelated calls
    cov = {
        "states": acc.n["executions"],
        "transitions": acc.n["choice_points"],
        "traces_validated_against_impl": acc.n["conformance_ok"],
        "exhaustive": acc.n["capped_settings"] == 0,
        "bound": {"deviations": bound, "execution_cap_per_setting": cap, "policies": POLICIES},
        "settings": len(_SETTINGS) * 2 * len(POLICIES),
        "settings_that_hit_the_cap": acc.n["capped_settings"],
        "distinct_outputs": len(acc.keys),
        "max_choice_points_in_one_call": acc.n["max_points"],
        "conformance_runs": acc.n["conformance_runs"],
        "explanation": f"every generator x parameter setting x pretty/non-pretty numbers x 3 default policies: all executions with <= "
                       f"{bound} departure(s) from the default answer of the scripted random module (menus: both outcomes of every "
                       "percent test, range ends / middle / repeat for randint, extreme fractions, identity/reverse/rotations or all "
                       "permutations for shuffle, every element for choice); conformance: answers recorded from the real "
                       "random.Random(seed) replayed through the scripted oracle must reproduce the output exactly",
    }
    return acc, cov, ["a fair default for randint (cycling through the range): a starving oracle is not a realistic seed",
                      "answer values strictly inside the abstracted ranges are not explored"]


def _reexplore_setting(case):
    acc = Acc()
    promise = next((p for g, kw, p in settings("quick") if g == case["gen"] and kw == case["kwargs"]), False)
    explore_setting(acc, case["gen"], case["kwargs"], promise, case["pretty"], case["policy"], case.get("bound", 1), case.get("cap", 4000))
    return acc


def replay(case):
    if isinstance(case, dict) and case.get("disturb"):
        from ..explore import disturb
        return disturb.differential('generated-problems', disturb.generator_battery)
    """the recorded execution on its own; if it does not reproduce (module-level state left behind by earlier
    executions of the same setting), the whole setting is re-explored in a freshly forked process"""
    want = case.get("_core")
    got = par.run_fresh(_replay_direct, case)  # own process: must not pollute the next level
    if got and (want is None or any(c == want for c, _ in got)):
        return got
    if case.get("kind") == "gen":
        a = par.run_fresh(_reexplore_setting, case)
        again = [(c, e["examples"][0]["detail"]) for c, e in a.viol.items()]
        if want is not None and any(c == want for c, _ in again):
            return [(c, d) for c, d in again if c == want]
        return again or got
    return got


def _replay_direct(case):
    from mathy_core import problems as P

    k = case["kind"]
    if k == "gen":
        orc = CH.Oracle(case["choices"], case["policy"])
        status, val = run_one(case["gen"], case["kwargs"], case["pretty"], orc)
        if status == "raise":
            return [(f"generator-raises:{type(val).__name__}|{case['gen']}|{str(val)[:60]}", repr(val))]
        promise = next((p for g, kw, p in settings("quick") if g == case["gen"] and kw == case["kwargs"]), False)
        return [(f"{kd}|{case['gen']}", d) for kd, d in judge_problem(val, promise, case["gen"])]
    if k in ("seed", "conf"):
        a = Acc()
        conformance(a, [case["seed"]])
        return [(c, e["examples"][0]["detail"]) for c, e in a.viol.items()]
    a = Acc()
    if k == "templates":
        check_term_templates(a)
    elif k == "rand_vars_starved":
        check_rand_vars_starved(a)
    elif k == "rand_vars":
        check_rand_vars(a, 2)
    else:
        check_split(a)
    return [(c, e["examples"][0]["detail"]) for c, e in a.viol.items()]
