"""C06 - a rule that reports it applies can be applied; the applicability check is pure;
find_nodes / find_node agree with can_apply_to in in-order."""
from . import steps
from ..acc import Acc
from .. import sig as SG
from ..explore import rewrite as RW
from ..oracle import audit

LEVEL = "model_checking"


def _is_expr(x):
    from mathy_core.expressions import MathExpression

    return isinstance(x, MathExpression)


def _purity_culprit(s, cname):
    """name the node whose can_apply_to call modifies the tree (slow path, only after a sweep differed)"""
    tree = SG.build(s)
    rule = RW.config(cname)
    everything = audit.all_nodes(tree)
    for index, node in enumerate(RW.inorder(tree)):
        before = audit.snapshot(everything)
        try:
            rule.can_apply_to(node)
        except Exception:  # noqa
            continue
        d = audit.snapshot_diff(before, audit.snapshot(everything))
        if d:
            return index, node, d
    return None


def check_state(root, s):
    """All C06 obligations of one state; returns ([(core, detail, cfg, index)], number of calls checked).

    Purity: the whole tree is snapshotted around the sweep of can_apply_to over all nodes of one
    configuration (a sweep that changes anything is then bisected per call on a rebuilt tree)."""
    out = []
    nodes = RW.inorder(root)
    everything = audit.all_nodes(root)
    twin = RW.inorder(SG.build(s))  # an independent tree with the same structure
    ncalls = 0
    for cname, rule in RW.configs():
        before = audit.snapshot(everything)
        a1 = []
        for index, node in enumerate(nodes):
            try:
                a1.append(bool(rule.can_apply_to(node)))
                ncalls += 1
            except Exception as e:  # noqa
                out.append((f"{cname}|can_apply-raises:{type(e).__name__}|{RW.neighbourhood(node)}", repr(e), cname, index))
                a1.append(False)
        d = audit.snapshot_diff(before, audit.snapshot(everything))
        if d:
            hit = _purity_culprit(s, cname)
            if hit is not None:
                index, node, d2 = hit
                out.append((f"{cname}|can_apply-modifies-tree|{RW.neighbourhood(node)}", d2, cname, index))
            else:
                out.append((f"{cname}|can_apply-modifies-tree|sweep", d, cname, 0))
        for index, node in enumerate(nodes):
            try:
                a2 = bool(rule.can_apply_to(node))
                a3 = bool(rule.can_apply_to(twin[index]))
            except Exception as e:  # noqa
                out.append((f"{cname}|can_apply-raises-on-repeat:{type(e).__name__}|{RW.neighbourhood(node)}", repr(e), cname, index))
                continue
            if a1[index] != a2:
                out.append((f"{cname}|can_apply-answer-changes-on-repeat|{RW.neighbourhood(node)}", f"{a1[index]} then {a2}", cname, index))
            if a1[index] != a3:
                out.append((f"{cname}|can_apply-differs-on-identical-tree|{RW.neighbourhood(node)}", f"{a1[index]} vs {a3}", cname, index))
        answers = a1
        # node search
        want = [n for n, a in zip(nodes, answers) if a]
        try:
            for n in everything:
                n.r_index = None
            found = rule.find_nodes(root)
            if len(found) != len(want) or any(x is not y for x, y in zip(found, want)):
                got_idx = [nodes.index(x) if x in nodes else "?" for x in found]
                out.append((f"{cname}|find_nodes-wrong-set-or-order", f"got in-order indices {got_idx}, applicable at "
                            f"{[i for i, a in enumerate(answers) if a]} in {SG.show(s)}", cname, -1))
            idx = [getattr(n, "r_index", None) for n in nodes]
            if idx != list(range(len(nodes))):
                out.append((f"{cname}|find_nodes-wrong-r_index", f"r_index in in-order: {idx} in {SG.show(s)}", cname, -1))
            first = rule.find_node(root)
            if first is not (want[0] if want else None):
                out.append((f"{cname}|find_node-not-first-match", SG.show(s), cname, -1))
        except Exception as e:  # noqa
            out.append((f"{cname}|find-raises:{type(e).__name__}", f"{e!r} in {SG.show(s)}", cname, -1))
    return out, ncalls


def judge_transition(cname, node, result, change, error, nb=None):
    if error is not None:
        return [(f"{cname}|applicable-but-raises:{type(error).__name__}|{nb or RW.neighbourhood(node)}", repr(error)[:300])]
    if change is None or not _is_expr(result):
        return [(f"{cname}|result-is-not-an-expression|{nb or RW.neighbourhood(node)}", repr(result))]
    return []


RULE_BATTERY = ["4 + 8", "4x + 8y", "4x + 8x", "6 + 9", "6x + 9x", "9 + 15", "-8^0.5", "(-8)^0.5 + 1", "2^-3 + x", "x * x", "2x * 3x^2", "7 - 3",
                "x / -y", "(2 + 3) * x", "2x + 3 = 7", "3x = 9", "(x + 1) + 2", "2 * 3 * x", "4x^0 + x^0", "0.5x + 1.5x", "7x + 3x", "12x + 18x", "49 + 121"]


def _rule_battery():
    """every configuration asked about every node of every battery tree, and every applicable rewrite executed:
    answers, results and exception types as plain data"""
    from mathy_core.parser import ExpressionParser

    out = []
    RW.reset_configs()
    for t in RULE_BATTERY:
        tree = ExpressionParser().parse(t)
        nodes = RW.inorder(tree)
        for cname, rule in RW.configs():
            for i, n in enumerate(nodes):
                try:
                    can = bool(rule.can_apply_to(n))
                except Exception as e:  # noqa
                    out.append((t, cname, i, "can-raises", type(e).__name__))
                    continue
                if not can:
                    out.append((t, cname, i, False, None))
                    continue
                try:
                    res, _ = RW.step(tree, rule, i)
                    out.append((t, cname, i, True, SG.show(SG.sig(RW.get_root(res))), str(RW.get_root(res))))
                except Exception as e:  # noqa
                    out.append((t, cname, i, True, "apply-raises:" + type(e).__name__))
    return out


def check_disturbed_rules():
    from ..explore import disturb

    return [("rule-answers-depend-on-earlier-unrelated-calls", f"after {name}: {before} became {after}")
            for name, i, before, after in disturb.run(_rule_battery)]


def _disturb_task(_):
    acc = Acc()
    acc.count("can_apply_calls", 8 * len(RULE_BATTERY) * 11 * 5)
    for kind, detail in check_disturbed_rules():
        acc.violation(kind, {"kind": "disturb"}, detail)
    return acc


class V(steps.Visitor):
    def on_state(self, acc, ctx, root, s):
        res, ncalls = check_state(root, s)
        acc.count("can_apply_calls", ncalls)
        for core, detail, cname, index in res:
            acc.violation(core, {"text": ctx["text"], "trace": ctx["trace"], "cfg": cname, "index": index, "kind": "state",
                                 "dup_ids": ctx.get("dup_ids", False)}, f"{detail}  [state {SG.show(s)}]")
        if acc.n["states"] % 3000 == 1:
            acc.sample({"start": ctx["text"], "trace": ctx["trace"], "checked": "11 configs x every node: purity, determinism, search"})

    def on_live_state(self, acc, ctx, root):
        """after an in-place rewrite the node search must describe the CURRENT tree (same root object or not)"""
        try:
            s = SG.sig(root)
        except Exception:  # noqa
            return
        if SG.arity_problems(s):
            return
        nodes = RW.inorder(root)
        res = []
        for cname, rule in RW.configs():
            # first-match search asked FIRST on the rewritten live tree (before any full search refreshes anything)
            try:
                first = rule.find_node(root)
                want = next((n for n in nodes if rule.can_apply_to(n)), None)
                if first is not want:
                    res.append((f"{cname}|find_node-not-first-match", f"returned {SG.show(SG.sig(first)) if first is not None else None}, "
                                f"first applicable is {SG.show(SG.sig(want)) if want is not None else None}", cname, -1))
            except Exception as e:  # noqa
                res.append((f"{cname}|find-raises:{type(e).__name__}", repr(e)[:120], cname, -1))
        more, ncalls = check_state(root, s)
        res += more
        for core, detail, cname, index in res:
            acc.violation(core + "|after-in-place-rewrite", {"text": ctx["text"], "trace": ctx["trace"], "cfg": cname, "index": index,
                                                            "kind": "live", "inplace": True}, f"{detail}  [live state {SG.show(s)}]")

    def on_transition(self, acc, ctx, root, s, cname, rule, index, node, result, change, error):
        for core, detail in judge_transition(cname, node, result, change, error, ctx.get("nb")):
            acc.violation(core, {"text": ctx["text"], "trace": ctx["trace"], "cfg": cname, "index": index, "kind": "apply",
                                 "inplace": ctx.get("inplace", False), "dup_ids": ctx.get("dup_ids", False)},
                          f"{detail}  [state {SG.show(s)}]")


def run(tier, seed):
    # every node x every configuration is snapshotted, so the closure is kept at depth 1 over the full start set;
    # depth 2 runs over the quick start set (thorough) or the reduced one (quick)
    depth = 1
    t1, h1 = steps.start_texts(tier, "expr")
    t2, h2 = steps.start_texts(tier, "eqn")
    texts = t1[:h1] + t2[:h2] + t1[h1:] + t2[h2:]
    acc = steps.run(V, texts, depth, "any", seed, h1 + h2)
    if tier == "thorough":
        q1, g1 = steps.start_texts("quick", "expr")
        q2, g2 = steps.start_texts("quick", "eqn")
        acc.merge(steps.run(V, q1[g1:] + q2[g2:], 2, "any", seed, 0, key="quickset"))
    small = (steps.small_texts("expr") + steps.small_texts("eqn")) if tier == "quick" else texts[h1 + h2:][::4]
    if tier == "quick":
        acc.merge(steps.run(V, small, 2, "any", seed, 0, key="small"))  # closure depth 2: the same rule objects see a tree and its rewrites
    inpl = small[::2] if tier == "quick" else small
    acc.merge(steps.run(V, inpl, "inplace", "any", seed, 0, key="inpl"))  # live-tree mode, 2 steps
    # trees assembled from a piece and its clone: identical subtrees share node ids
    from ..gen import exprs as X
    dup = [f"{a} = {b} + {a}" for a in ("2x", "3x^2", "x + 1", "2 * y") for b in ("y", "3", "2x")]
    dup += [f"{a} + {b} + {a}" for a in ("2x", "x^2", "4 * y", "2 + x") for b in ("y", "3")]
    dup += [f"({a}) * ({a})" for a in ("x + 1", "2x", "x + y")] + [f"{a} + {a} = {a}" for a in ("2x", "x + 1")]
    dup += [t for t in steps.small_texts("expr") if t.count("x") >= 2][::6]
    acc.merge(steps.run(V, dup, "dupids", "any", seed, 0, key="dup"))
    # answers and results of a fixed battery must not change after unrelated calls (state that outlives a call)
    from .. import par
    acc.merge(par.run_fresh(_disturb_task, None))
    cov = {
        "states": len(acc.keys),
        "transitions": acc.n["transitions"],
        "traces_validated_against_impl": acc.n["transitions"],
        "exhaustive": True,
        "bound": {"start_texts": len(texts), "closure_depth": depth, "depth2_and_inplace_start_texts": len(small)},
        "inplace_transitions": acc.n["inplace_transitions"],
        "can_apply_calls_checked_for_purity": acc.n["can_apply_calls"],
        "per_config": {k[8:]: v for k, v in sorted(acc.n.items()) if k.startswith("applied:")},
        "explanation": "every state (expressions and equations) x 11 configurations x EVERY node: can_apply_to is called with a full "
                       "snapshot comparison of the tree around it, repeated, and repeated on an independently built identical tree; "
                       "find_nodes/find_node are compared with the in-order list of applicable nodes; every applicable transition is "
                       "executed on clone_from_root and must return a change whose result is a MathExpression",
    }
    return acc, cov, ["purity is judged on links, payload, ids, classes, _changed and r_index of every node of the tree"]


def _replay_direct(case):
    if case.get("kind") == "disturb":
        return check_disturbed_rules()
    if case.get("kind") == "live" or case.get("dup_ids"):
        return []  # reproduced by re-exploring the seed (see replay)
    if case.get("kind") == "state":
        roots = RW.run_trace(case["text"], case["trace"], scan_states=False)
        cur = roots[-1]
        s = SG.sig(cur)
        res, _ = check_state(cur, s)
        return [(c, d) for c, d, cn, ix in res if cn == case["cfg"]]
    cur, s, cname, rule, index, node, result, change, error, nb = steps.replay_last(case)
    return judge_transition(cname, node, result, change, error, nb)


def replay(case):
    """three-level replay, each level in a fresh process (see steps.layered_replay)"""
    return steps.layered_replay(case, _replay_direct, V)
