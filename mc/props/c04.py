"""C04 - printing an expression and parsing it back preserves its meaning.

Space: (a) every tree the parser returns for the token-class strings of C03, (b) every uniform tree with
<= k nodes built from fully parenthesised text, term-structured sums and equations, (c) every result of
one (quick) or two (thorough) rewrite steps from (b).  Oracle: str(t) parses; same variables; same
function (same solution set for equations)."""
from collections import deque

from . import steps
from .. import par
from .. import sig as SG
from ..acc import Acc, merge_all
from ..explore import rewrite as RW
from ..gen import exprs as X
from ..gen import strings as G
from ..oracle import equiv

LEVEL = "exploration"


def roundtrip(tree, s=None):
    """(kind, detail) or None for one real tree."""
    from mathy_core.parser import ExpressionParser, ParserException

    s = s if s is not None else SG.sig(tree)
    try:
        text = str(tree)
    except Exception as e:  # noqa
        return ("print-raises:" + type(e).__name__, repr(e)[:120])
    try:
        back = ExpressionParser().parse(text)
    except (ParserException, ValueError) as e:
        return ("text-not-accepted", f"{SG.show(s)} prints as {text!r}: {type(e).__name__}")
    except Exception as e:  # noqa
        return ("reparse-internal-error:" + type(e).__name__, f"{text!r}")
    bs = SG.sig(back)
    if SG.variables(bs) != SG.variables(s):
        return ("variables-differ", f"{SG.show(s)} prints as {text!r}, re-parsed {SG.show(bs)}")
    if (s[0] == "=") != (bs[0] == "="):
        return ("meaning-changed", f"{SG.show(s)} prints as {text!r}, re-parsed {SG.show(bs)}")
    vd = equiv.same_solutions(s, bs) if s[0] == "=" else equiv.same_function(s, bs)
    if not vd.same:
        return ("meaning-changed", f"{SG.show(s)} prints as {text!r}, re-parsed {SG.show(bs)}; differ at {vd.witness}")
    return None


def finite(s):
    if s is None:
        return True
    if s[0] == "c":
        tc, v = s[1]
        if tc in ("f", "nf"):
            f = float.fromhex(v)
            if f != f or f in (float("inf"), float("-inf")):
                return False
        return tc in ("i", "f", "ni", "nf")
    return finite(s[2]) and finite(s[3])


def localise(tree):
    """smallest failing subtree: (kind, detail, node) - children printed alone all pass"""
    res = roundtrip(tree)
    if res is None:
        return None
    for child in (tree.left, tree.right):
        if child is not None:
            sub = SG.build(SG.sig(child))  # an independent copy of the subtree, printed on its own
            got = localise(sub)
            if got is not None:
                return got
    return (res[0], res[1], tree)


def judge(acc, tree, s, case):
    acc.count("roundtrips")
    if not finite(s) or SG.arity_problems(s):
        acc.count("skipped_nonfinite_or_malformed")
        return
    if roundtrip(tree, s) is None:
        acc.key(hash(s))
        return
    kind, detail, node = localise(tree)
    core = f"{kind}|{RW.pat(SG.sig(node), 2)}"
    acc.violation(core, dict(case, core_sig=SG.sig(node)), detail)


def _work_strings(task):
    from mathy_core.parser import ExpressionParser

    n, lo, hi = task
    acc = Acc()
    for syms in G.iterate(G.TOKEN_CLASSES, n, lo, hi):
        text = G.render(syms)
        try:
            tree = ExpressionParser().parse(text)
        except Exception:  # noqa
            continue
        judge(acc, tree, SG.sig(tree), {"text": text, "trace": []})
    return acc


def check_reparse_after_consumption(text):
    """A fresh parser must return a fresh, correct tree for a text even if the tree an earlier parser returned
    for the same text was meanwhile consumed by rules applied IN PLACE (as the repository's run_rule_tests does)."""
    from mathy_core.parser import ExpressionParser

    out = []
    try:
        s0 = SG.sig(ExpressionParser().parse(text))
    except Exception:  # noqa
        return out
    probe = ExpressionParser().parse(text)
    todo = []
    for cname, rule in RW.configs():
        for index, node in enumerate(RW.inorder(probe)):
            try:
                if rule.can_apply_to(node):
                    todo.append((cname, index))
            except Exception:  # noqa
                pass
    for cname, index in todo:
        victim = ExpressionParser().parse(text)
        try:
            RW.config(cname).apply_to(RW.inorder(victim)[index])
        except Exception:  # noqa
            continue
        try:
            again = ExpressionParser().parse(text)
            s1 = SG.sig(again)
            probs = SG.arity_problems(s1)
        except Exception as e:  # noqa
            out.append(("fresh-parser-fails-after-earlier-result-was-rewritten", f"{text!r} after in-place {cname}@{index}: {type(e).__name__}"))
            continue
        if s1 != s0 or probs:
            out.append(("fresh-parser-returns-consumed-tree", f"{text!r}: after an earlier parse result was rewritten in place by {cname}@{index}, "
                        f"a fresh parser returns {SG.show(s1)} instead of {SG.show(s0)}"))
            break
    return out


_TEXTS = []


def _work_texts(task):
    lo, hi, depth = task
    acc = Acc()
    if depth == "consume":
        for i in range(lo, hi):
            acc.count("roundtrips")
            acc.count("reparse_after_consumption")
            for kind, detail in check_reparse_after_consumption(_TEXTS[i]):
                acc.violation(kind, {"text": _TEXTS[i], "trace": [], "mode": "consume"}, detail)
        return acc
    for i in range(lo, hi):
        text = _TEXTS[i]
        RW.reset_configs()
        try:
            root = RW.parse(text)
        except Exception:  # noqa
            continue
        s0 = SG.sig(root)
        seen = {s0}
        queue = deque([(root, s0, [])])
        while queue:
            cur, s, trace = queue.popleft()
            judge(acc, cur, s, {"text": text, "trace": trace})
            if trace:
                acc.count("rewrite_outputs")
            if len(trace) >= depth:
                continue
            nodes = RW.inorder(cur)
            for cname, rule in RW.configs():
                for index, node in enumerate(nodes):
                    try:
                        if not rule.can_apply_to(node):
                            continue
                        res, _ = RW.step(cur, rule, index)
                        nroot = RW.get_root(res)
                        ns = SG.sig(nroot)
                    except Exception:  # noqa
                        continue
                    if ns not in seen and not SG.arity_problems(ns):
                        seen.add(ns)
                        queue.append((nroot, ns, trace + [[cname, index]]))
        if i == lo:
            acc.sample({"start": text, "rewrite_depth": depth})
    return acc


def _disturb_task(_):
    from ..explore import disturb

    acc = Acc()
    acc.count("disturbance_rounds", 9)
    for core, detail in disturb.differential("printed-rewrite-results", disturb.printed_results_battery):
        acc.violation(core, {"text": "", "trace": [], "mode": "disturb"}, detail)
    return acc


def run(tier, seed):
    N = 5 if tier == "quick" else 7
    depth = 1 if tier == "quick" else 2
    tasks = G.tasks(len(G.TOKEN_CLASSES), N, parts_per_len=128)
    a1 = merge_all(par.pmap(_work_strings, tasks))
    t1, _ = steps.start_texts(tier, "expr")
    t2, _ = steps.start_texts(tier, "eqn")
    mag0 = X.magnitude_texts_static()
    mag1 = X.magnitude_texts_fold() + X.power_nests()
    texts = list(dict.fromkeys(mag0 + mag1 + t1 + t2))
    if tier == "thorough":
        texts += X.uniform(5, leaves=["2", "-3", "x"], unary=True)
    _TEXTS[:] = texts
    n = len(texts)
    n0, n1 = len(mag0), len(mag0) + len(mag1)
    assert texts[:n1] == mag0 + mag1
    tt = [(i, min(i + 40, n0), 0) for i in range(0, n0, 40)] + [(i, min(i + 40, n1), 1) for i in range(n0, n1, 40)]
    tt += [(i, min(i + 300, n), depth) for i in range(n1, n, 300)]
    # fresh-parser re-parse after in-place consumption, on every 40th text
    tt += [(i, i + 1, "consume") for i in range(n1, n, 40 if tier == "quick" else 10)]
    k = seed % len(tt)
    tt = tt[k:] + tt[:k]
    a2 = merge_all(par.pmap(_work_texts, tt))
    acc = merge_all([a1, a2, par.run_fresh(_disturb_task, None)])
    cov = {
        "evaluations": acc.n["roundtrips"],
        "distinct_nontrivial": len(acc.keys),
        "rule": f"(a) the parse tree of every accepted token-class string of <= {N} tokens; (b) every start tree of the C01/C02 "
                f"families (uniform <= 5 nodes, term-structured, equations, contexts, repository examples); (c) every distinct tree "
                f"reached from (b) by <= {depth} applicable rewrite step(s); distinct_nontrivial = distinct trees (by signature) whose "
                "text re-parsed and was compared on the grid",
        "exhaustive": True,
        "bound": {"max_tokens": N, "rewrite_depth": depth},
        "rewrite_outputs": acc.n["rewrite_outputs"],
    }
    return acc, cov, ["trees with NaN/inf constants are excluded as the property says", "equations compared by solution set"]


def replay(case):
    want = case.get("_core")
    try:
        got = par.run_fresh(_replay_direct, case)  # own process: must not pollute the next level
    except Exception:  # noqa
        got = []
    if got and (want is None or any(c == want for c, _ in got)):
        return got
    # the tree may only be reachable with the rule-object history of the exploration: re-run that seed
    saved = list(_TEXTS)
    _TEXTS[:] = [case["text"]]
    try:
        a = _work_texts((0, 1, max(1, len(case.get("trace", [])))))
    finally:
        _TEXTS[:] = saved
    again = [(c, e["examples"][0]["detail"]) for c, e in a.viol.items()]
    if want is not None and any(c == want for c, _ in again):
        return [(c, d) for c, d in again if c == want]
    return again or got


def _replay_direct(case):
    if case.get("mode") == "disturb":
        from ..explore import disturb
        return disturb.differential("printed-rewrite-results", disturb.printed_results_battery)
    if case.get("mode") == "consume":
        return check_reparse_after_consumption(case["text"])
    roots = RW.run_trace(case["text"], case["trace"])
    tree = roots[-1]
    if roundtrip(tree) is None:
        return []
    kind, detail, node = localise(tree)
    return [(f"{kind}|{RW.pat(SG.sig(node), 2)}", detail)]
