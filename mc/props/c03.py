"""C03 - text is read according to the documented grammar and order of operations.

Space: every token-class string of length <= N over {C,V,+,-,*,/,^,!,(,),=,sgn} rendered with pairwise
distinct leaf lexemes, plus a lexeme pass (decimals, multi-digit, brackets, en-dash, blanks, letter runs).
Oracle: O-gram (acceptance) and value equality of the parsed tree with the reference signature."""
import itertools

from .. import par, watchdog
from .. import sig as SG
from ..acc import Acc, merge_all
from ..gen import strings as G
from ..oracle import equiv, reflex, refgram

LEVEL = "exploration"
BOUND = {"quick": 5, "thorough": 7}
LEXEMES = ["2", "10", "0.5", ".5", "1.", "1.2.3", ".", "x", "xy", "sgn", "sgnx", "sg", "+", "-", "–", "*", "/", "^", "!",
           "(", ")", "[", "]", "=", " ", "", "9007199254740993", "123456789012345678901234567890", "0.1", "Sgn", "sgN"]
LEX_BOUND = {"quick": 3, "thorough": 4}


def _parser_errors():
    from mathy_core.parser import ParserException

    return (ParserException, ValueError)


def compare(text):
    """[(kind, detail)] for one text."""
    from mathy_core.parser import ExpressionParser

    try:
        ref = refgram.parse(reflex.lex(text))
    except (refgram.Reject, reflex.Unsupported):
        ref = None
    ok, got = watchdog.guarded(ExpressionParser().parse, text)
    if not ok:
        if isinstance(got, _parser_errors()):
            if ref is None:
                return []
            return [("rejects-derivable-string", f"{type(got).__name__}: {str(getattr(got, 'message', got))[:80]}; grammar gives {SG.show(ref)}")]
        return []  # internal errors / non-termination are judged by C10
    imp = SG.sig(got)
    if ref is None:
        return [("accepts-underivable-string", f"parsed as {SG.show(imp)}")]
    return compare_sigs(imp, ref)


def compare_sigs(imp, ref):
    if (imp[0] == "=") != (ref[0] == "="):
        return [("equation-structure", f"parsed {SG.show(imp)}, grammar {SG.show(ref)}")]
    if imp[0] == "=":
        return compare_sigs(imp[2], ref[2]) or compare_sigs(imp[3], ref[3])
    if SG.arity_problems(imp):
        return []  # malformed trees are C10's business
    if SG.variables(imp) != SG.variables(ref):
        return [("operand-dropped-or-duplicated", f"parsed {SG.show(imp)}, grammar {SG.show(ref)}")]
    vd = equiv.same_function(imp, ref)
    if not vd.same:
        return [("wrong-value", f"parsed {SG.show(imp)}, grammar {SG.show(ref)}, differ at {vd.witness}")]
    return []


def shrink_classes(classes, kind):
    """delete token classes while the same kind of disagreement persists"""
    classes = list(classes)
    changed = True
    while changed and len(classes) > 1:
        changed = False
        for i in range(len(classes)):
            cand = classes[:i] + classes[i + 1:]
            if any(k == kind for k, _ in compare(G.render(cand))):
                classes = cand
                changed = True
                break
    return classes


def _work(task):
    mode, n, lo, hi = task
    watchdog.install()
    acc = Acc()
    alphabet = G.TOKEN_CLASSES if mode == "classes" else LEXEMES
    for syms in G.iterate(alphabet, n, lo, hi):
        text = G.render(syms) if mode == "classes" else "".join(syms)
        acc.count("strings")
        res = compare(text)
        if res:
            for kind, detail in res:
                if mode == "classes":
                    small = shrink_classes(syms, kind)
                    core = f"{kind}|{' '.join(small)}"
                    case = {"text": G.render(small), "kind": kind, "mode": "classes"}
                else:
                    core = f"{kind}|lexemes|{text!r}"
                    case = {"text": text, "kind": kind, "mode": "lexemes"}
                acc.violation(core, case, f"input {text!r}: {detail}")
        else:
            try:
                refgram.parse(reflex.lex(text))
                acc.count("accepted_by_both")
                acc.key(hash(text))
                if acc.n["accepted_by_both"] % 400 == 1:
                    acc.sample(text)
            except Exception:  # noqa
                acc.count("rejected_by_both")
    return acc


def run(tier, seed):
    N = BOUND[tier]
    tasks = [("classes",) + t for t in G.tasks(len(G.TOKEN_CLASSES), N, parts_per_len=128, min_len=0)]
    tasks += [("lexemes",) + t for t in G.tasks(len(LEXEMES), LEX_BOUND[tier], parts_per_len=64, min_len=1)]
    k = seed % len(tasks)
    tasks = tasks[k:] + tasks[:k]
    acc = merge_all(par.pmap(_work, tasks))
    cov = {
        "evaluations": acc.n["strings"],
        "distinct_nontrivial": len(acc.keys),
        "rule": f"every token-class string of length 0..{N} over {G.TOKEN_CLASSES} (i-th constant -> i-th prime, i-th variable -> "
                f"i-th letter) and every concatenation of 1..{LEX_BOUND[tier]} lexemes from {LEXEMES}; distinct_nontrivial = distinct "
                "strings accepted by both the parser and the reference grammar, whose values were then compared on the grid",
        "exhaustive": True,
        "bound": {"max_tokens": N, "max_lexemes": LEX_BOUND[tier]},
        "accepted_by_both": acc.n["accepted_by_both"], "rejected_by_both": acc.n["rejected_by_both"],
    }
    return acc, cov, ["reference grammar = greedy reading of the EBNF in the parser docstring plus the clauses of the property statement",
                      "values compared by the exact evaluator on a rational grid (decided inside the rational fragment)"]


def replay(case):
    watchdog.install()
    out = []
    for kind, detail in compare(case["text"]):
        if kind == case["kind"]:
            out.append((kind, detail))
    # cores are recomputed the way the explorer names them
    res = []
    for kind, detail in out:
        if case.get("mode") == "lexemes":
            res.append((f"{kind}|lexemes|{case['text']!r}", detail))
        else:
            toks = []
            for t in case["text"].split(" "):
                toks.append("C" if t and t[0].isdigit() else ("V" if t in G.VARS else t))
            res.append((f"{kind}|{' '.join(toks)}", detail))
    return res
