"""Shared single-step exploration for C01/C02/C06/C07: every start state x every rule
configuration x every node, with optional depth closure over rewrite results."""
from collections import deque

from .. import par
from .. import sig as SG
from ..acc import Acc, merge_all
from ..explore import rewrite as RW
from ..gen import exprs as X
from ..repo import REPO


def start_texts(tier, kind):
    """kind: 'expr' (non-equation roots), 'eqn' (equation roots).
    Returns (texts, heavy_first): the repository's own examples come first (many variables)."""
    if kind == "expr":
        texts = [t for t in X.repo_inputs(REPO) if "=" not in t]
        heavy = len(texts)
        texts += X.uniform(5 if tier == "quick" else 5)
        texts += X.termsums(3, X.TERMS_Q)
        texts += X.flat_chains(3, ["2", "-3", "x", "2x", "x^2", "4x^2", "y"], ("+", "-", "*"))
        texts += X.same_op_groupings(4)
        texts += X.deep_chains()
        texts += X.unary_wrapped_groupings()
        texts += [t for t in X.CASE_TWINS if "=" not in t] + X.sign_twins()
        texts += [t for t in X.FOLD_MAGNITUDES if "=" not in t]
        if tier == "thorough":
            texts += X.power_nests()
            texts += X.uniform_exact(7, X.LEAVES_SMALL)
            texts += X.termsums(3, X.TERMS_T)
            texts += X.flat_chains(4, ["2", "-3", "x", "2x", "x^2", "4x^2", "y"], ("+", "-", "*"))
        return texts, heavy
    if kind == "eqn":
        texts = [t for t in X.repo_inputs(REPO) if "=" in t]
        heavy = len(texts)
        texts += X.equations()
        texts += [t for t in X.FOLD_MAGNITUDES if "=" in t] + [t for t in X.CASE_TWINS if "=" in t] + X.product_equations()
        texts += X.contexts(1 if tier == "quick" else 2)

        texts += X.equations3() if tier == "thorough" else X.equations3(("2", "x", "3x", "0x"), ("+", "*"))
        return texts, heavy
    raise ValueError(kind)


class Visitor:
    """Override the hooks; all receive real objects."""

    def on_state(self, acc, ctx, root, s):
        pass

    def on_node(self, acc, ctx, root, s, cname, rule, index, node, can):
        pass

    def on_transition(self, acc, ctx, root, s, cname, rule, index, node, result, change, error):
        pass


def unify_ids(root):
    """Give structurally identical subtrees the same node ids, position by position - what a tree assembled
    from a piece and its clone() looks like (clone copies ids).  Returns True if anything was unified."""
    groups = {}
    for n in RW.inorder(root):
        if n.left is None and n.right is None:
            continue
        groups.setdefault(SG.sig(n), []).append(n)
    changed = False
    for nodes in groups.values():
        if len(nodes) < 2:
            continue
        first = RW.inorder(nodes[0])
        for other in nodes[1:]:
            for a, b in zip(first, RW.inorder(other)):
                if b.id != a.id:
                    b.id = a.id
                    changed = True
    return changed


def explore_text(acc, visitor, text, depth, want_root, dup_ids=False):
    """BFS to `depth` from parse(text).  ctx = {'text', 'trace'} identifies each state."""
    RW.reset_configs()  # rule-object state may depend only on this seed's history
    try:
        root = RW.parse(text)
    except Exception:  # noqa - unparsable start texts are C03/C10's business
        acc.count("start_unparsable")
        return
    if dup_ids and not unify_ids(root):
        return
    s0 = SG.sig(root)
    is_eq = s0[0] == "="
    if want_root == "expr" and is_eq:
        return
    if want_root == "eqn" and not is_eq:
        return
    seen = {s0}
    queue = deque([(root, s0, [])])
    while queue:
        cur, s, trace = queue.popleft()
        acc.count("states")
        acc.key(hash(s))
        ctx = {"text": text, "trace": trace, "dup_ids": dup_ids}
        visitor.on_state(acc, ctx, cur, s)
        nodes = RW.inorder(cur)
        for cname, rule in RW.configs():
            for index, node in enumerate(nodes):
                try:
                    can = rule.can_apply_to(node)
                except Exception as e:  # noqa
                    can = e
                visitor.on_node(acc, ctx, cur, s, cname, rule, index, node, can)
                if isinstance(can, Exception) or not can:
                    continue
                acc.count("transitions")
                acc.count("applied:" + cname)
                result = change = error = None
                try:
                    result, change = RW.step(cur, rule, index)
                except Exception as e:  # noqa
                    error = e
                visitor.on_transition(acc, ctx, cur, s, cname, rule, index, node, result, change, error)
                if error is None and result is not None and len(trace) + 1 < depth:
                    try:
                        nroot = RW.get_root(result)
                        ns = SG.sig(nroot)
                    except Exception:  # noqa
                        continue
                    if ns not in seen and not SG.arity_problems(ns) and SG.size(ns) <= 40:
                        seen.add(ns)
                        queue.append((nroot, ns, trace + [[cname, index]]))


def explore_inplace(acc, visitor, text, want_root, relist=True):
    """Depth-2 exploration in IN-PLACE mode: rules are applied to the live tree (as the repository's own
    run_rule_tests does), not to a clone.  For every first transition t1 and every second transition t2
    applicable afterwards, the state is rebuilt (fresh parse, scan, t1 in place, scan) and t2 is applied in
    place to the very node objects the first rewrite left behind.  Depth-1 in-place steps are judged too."""
    def rebuild(trace):
        RW.reset_configs()
        root = RW.parse(text)
        for k, (cname, index) in enumerate(trace):
            if relist or k == 0:
                RW.scan(root)
                for _, r_ in RW.configs():
                    try:
                        r_.find_nodes(root)
                    except Exception:  # noqa
                        pass
            node = RW.inorder(root)[index]
            root = RW.get_root(RW.config(cname).apply_to(node).result)
        return root

    try:
        root = rebuild([])
    except Exception:  # noqa
        return
    s0 = SG.sig(root)
    is_eq = s0[0] == "="
    if (want_root == "expr" and is_eq) or (want_root == "eqn" and not is_eq):
        return

    def applicable(r):
        out = []
        nodes = RW.inorder(r)
        for cname, rule in RW.configs():
            for index, node in enumerate(nodes):
                try:
                    if rule.can_apply_to(node):
                        out.append((cname, index))
                except Exception:  # noqa
                    pass
        return out

    for t1 in applicable(root):
        for depth2 in (False, True):
            if not depth2:
                todo = [[list(t1)]]
            else:
                try:
                    mid = rebuild([t1])
                except Exception:  # noqa
                    break
                if SG.arity_problems(SG.sig(mid)):
                    break
                todo = [[list(t1), list(t2)] for t2 in applicable(mid)]
            for trace in todo:
                try:
                    cur = rebuild(trace[:-1])
                except Exception:  # noqa
                    continue
                if relist or len(trace) == 1:
                    RW.scan(cur)
                    for _, r_ in RW.configs():  # search agents list the applicable nodes before choosing one
                        try:
                            r_.find_nodes(cur)
                        except Exception:  # noqa
                            pass
                # relist=False: the second step is taken WITHOUT listing again - whatever was stamped on the nodes
                # (r_index) or remembered by the rules describes the tree before the first rewrite
                s = SG.sig(cur)
                cname, index = trace[-1]
                rule = RW.config(cname)
                nodes = RW.inorder(cur)
                if index >= len(nodes):
                    continue
                node = nodes[index]
                nb_node = node  # neighbourhood is read before the rewrite
                ctx = {"text": text, "trace": [list(x) for x in trace[:-1]], "inplace": True, "relist": relist}
                acc.count("transitions")
                acc.count("inplace_transitions")
                acc.count("applied:" + cname)
                before_nb = RW.neighbourhood(nb_node)
                node_sig0, node_path0 = SG.sig(node), RW.path_of(node)
                result = change = error = None
                try:
                    change = rule.apply_to(node)
                    result = change.result
                except Exception as e:  # noqa
                    error = e
                visitor.on_transition(acc, dict(ctx, nb=before_nb, node_sig=node_sig0, node_path=node_path0), None, s, cname, rule, index,
                                      node, result, change, error)
                if error is None and result is not None and hasattr(visitor, "on_live_state"):
                    visitor.on_live_state(acc, dict(ctx, trace=[list(x) for x in trace]), RW.get_root(result))


_TASK = {}
_CHUNK = {}


def chunk_info():
    """what a violation needs in order to be replayed with the same process history: the texts of its chunk up
    to and including the current seed, and the exploration mode"""
    if not _CHUNK:
        return {}
    return {"chunk_texts": list(_CHUNK["texts"][_CHUNK["lo"]: _CHUNK["i"] + 1]), "chunk_depth": _CHUNK["depth"],
            "chunk_root": _CHUNK["want_root"]}


def _replay_chunk_work(args):
    vis_factory, texts, depth, want_root = args
    acc = Acc()
    visitor = vis_factory()
    for t in texts:
        if depth == "inplace-stale":
            explore_inplace(acc, visitor, t, want_root, relist=False)
        elif depth == "inplace":
            explore_inplace(acc, visitor, t, want_root)
        elif depth == "dupids":
            explore_text(acc, visitor, t, 1, want_root, dup_ids=True)
        else:
            explore_text(acc, visitor, t, depth, want_root)
    return acc


def replay_chunk(case, vis_factory):
    """third level of replay: the whole chunk prefix in one freshly forked process"""
    if "chunk_texts" not in case:
        return []
    acc = par.run_fresh(_replay_chunk_work, (vis_factory, case["chunk_texts"], case["chunk_depth"], case.get("chunk_root", "any")))
    return [(core, ent["examples"][0]["detail"]) for core, ent in acc.viol.items()]


def _work(task):
    vis_factory, texts_key, lo, hi, depth, want_root = task
    texts = _TASK[texts_key]
    acc = Acc()
    visitor = vis_factory()
    _CHUNK["texts"], _CHUNK["lo"], _CHUNK["depth"], _CHUNK["want_root"] = texts, lo, depth, want_root
    for i in range(lo, hi):
        _CHUNK["i"] = i
        if depth == "inplace":
            explore_inplace(acc, visitor, texts[i], want_root)
        elif depth == "inplace-stale":
            explore_inplace(acc, visitor, texts[i], want_root, relist=False)
        elif depth == "dupids":
            explore_text(acc, visitor, texts[i], 1, want_root, dup_ids=True)
        else:
            explore_text(acc, visitor, texts[i], depth, want_root)
    # what each recorded violation needs for a replay with the same process history
    pos = {texts[i]: i for i in range(hi - 1, lo - 1, -1)}
    for ent in acc.viol.values():
        for ex in ent["examples"]:
            c = ex["case"]
            if isinstance(c, dict) and c.get("text") in pos and "chunk_texts" not in c:
                c["chunk_texts"] = list(texts[lo: pos[c["text"]] + 1])
                c["chunk_depth"] = depth
                c["chunk_root"] = want_root
    return acc


def run(vis_factory, texts, depth, want_root, seed, heavy_first=0, key="texts"):
    """heavy_first: the first N texts are expensive (many variables): one small task each."""
    texts = list(dict.fromkeys(texts))
    _TASK[key] = texts
    n = len(texts)
    parts = [(i, min(i + 8, heavy_first)) for i in range(0, heavy_first, 8)]
    size = 400
    rest = [(i, min(i + size, n)) for i in range(heavy_first, n, size)]
    k = seed % max(1, len(rest))
    rest = rest[k:] + rest[:k]
    # long tasks first, deterministic order of results
    tasks = [(vis_factory, key, lo, hi, depth, want_root) for lo, hi in parts + rest[::-1]]
    # every chunk in its own freshly forked process: module- or class-level state of the code under test depends
    # only on the chunk; such a violation is replayed by re-running the chunk's texts up to the seed (replay_chunk)
    accs = par.pmap(_work, tasks, fresh=True)
    acc = merge_all(accs)
    acc.n["start_texts"] = n
    return acc


def replay_last(case):
    """Re-run a recorded trace (fresh rule objects, every state scanned as during exploration);
    returns (before_root, s, cname, rule, index, node, result, change, error, neighbourhood)."""
    text, trace = case["text"], case["trace"]
    inplace = bool(case.get("inplace"))
    roots = RW.run_trace(text, trace, inplace=inplace)
    cur = roots[-1]
    cname, index = case["cfg"], case["index"]
    rule = RW.config(cname)
    nodes = RW.inorder(cur)
    node = nodes[index]
    s = SG.sig(cur)
    nb = RW.neighbourhood(node)
    result = change = error = None
    try:
        if inplace:
            change = rule.apply_to(node)
            result = change.result
        else:
            result, change = RW.step(cur, rule, index)
    except Exception as e:  # noqa
        error = e
    return cur, s, cname, rule, index, node, result, change, error, nb


def small_texts(kind):
    """reduced start set for the depth-2 / in-place closures of the quick tier"""
    if kind == "expr":
        t = [x for x in X.repo_inputs(REPO) if "=" not in x and len(x) <= 30]
        t += X.uniform(3)
        t += X.termsums(2, X.TERMS_Q)
        t += X.termsums(3, ["2", "-3", "x", "4x", "x^2", "y"], ["+", "*", "-"])
        t += X.flat_chains(3, ["2", "x", "3x", "x^2", "y", "-3"], ("+", "*"))
        t += X.unary_wrapped_groupings()[::5]
        # folds that create non-finite constants next to terms the other rules look at
        t += ["0^-3 + x", "x + 0^-1", "(0^-3 + 2) * x", "2 / 0 + x", "x * (3 / 0)", "0^-3 + 2", "(2 - 2)^-3 + -3", "y + (3 - 3)^-3"]
        return t
    t = [x for x in X.repo_inputs(REPO) if "=" in x and len(x) <= 30]
    t += X.equations(["2", "-3", "x", "2x", "x^2", "3y"], ("+", "-", "*"))
    return t


def reexplore(case, vis_factory):
    """Faithful replay of a violation that depends on state kept in rule objects: re-run the exploration of
    the recorded seed text from fresh rule objects, exactly as the explorer did (same scans, same order),
    and return every violation core it yields.  Deterministic: rule objects are reset per seed."""
    acc = Acc()
    visitor = vis_factory()
    if case.get("inplace"):
        explore_inplace(acc, visitor, case["text"], "any", relist=case.get("relist", True))
    elif case.get("dup_ids"):
        explore_text(acc, visitor, case["text"], 1, "any", dup_ids=True)
    else:
        explore_text(acc, visitor, case["text"], len(case.get("trace", [])) + 1, "any")
    return [(core, ent["examples"][0]["detail"]) for core, ent in acc.viol.items()]


def _lvl1(args):
    direct, case = args
    try:
        return direct(case)
    except Exception:  # noqa
        return []


def _lvl2(args):
    vis_factory, case = args
    return reexplore(case, vis_factory)


def layered_replay(case, direct, vis_factory):
    """Replay in three levels, each in its own newly forked process so that none can pollute the next:
    1. the recorded trace on its own; 2. the exploration of its seed from fresh rule objects; 3. the prefix of
    its chunk (module- / class-level state left behind by earlier seeds).  Returns the violations of the first
    level that reproduces the recorded core."""
    want = case.get("_core")
    got = par.run_fresh(_lvl1, (direct, case))
    if got and (want is None or any(c == want for c, _ in got)):
        return got
    again = par.run_fresh(_lvl2, (vis_factory, case))
    if want is not None and any(c == want for c, _ in again):
        return [(c, d) for c, d in again if c == want]
    if want is not None:
        third = replay_chunk(case, vis_factory)
        if any(c == want for c, _ in third):
            return [(c, d) for c, d in third if c == want]
    return again or got
