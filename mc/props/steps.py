"""Shared single-step exploration for C01/C02/C06/C07: every start state x every rule
configuration x every node, with optional depth closure over rewrite results."""
from collections import deque

from .. import par
from .. import sig as SG
from ..acc import Acc, merge_all
from ..explore import rewrite as RW
from ..gen import exprs as X
from ..repo import REPO


def start_texts(tier, kind):
    """kind: 'expr' (non-equation roots), 'eqn' (equation roots).
    Returns (texts, heavy_first): the repository's own examples come first (many variables)."""
    if kind == "expr":
        texts = [t for t in X.repo_inputs(REPO) if "=" not in t]
        heavy = len(texts)
        texts += X.uniform(5 if tier == "quick" else 5)
        texts += X.termsums(3, X.TERMS_Q)
        texts += X.flat_chains(3, ["2", "-3", "x", "2x", "x^2", "4x^2", "y"], ("+", "-", "*"))
        if tier == "thorough":
            texts += X.uniform_exact(7, X.LEAVES_SMALL)
            texts += X.termsums(3, X.TERMS_T)
            texts += X.flat_chains(4, ["2", "-3", "x", "2x", "x^2", "4x^2", "y"], ("+", "-", "*"))
        return texts, heavy
    if kind == "eqn":
        texts = [t for t in X.repo_inputs(REPO) if "=" in t]
        heavy = len(texts)
        texts += X.equations()
        texts += X.contexts(1 if tier == "quick" else 2)
        texts += X.equations3() if tier == "thorough" else X.equations3(("2", "x", "3x", "0x"), ("+", "*"))
        return texts, heavy
    raise ValueError(kind)


class Visitor:
    """Override the hooks; all receive real objects."""

    def on_state(self, acc, ctx, root, s):
        pass

    def on_node(self, acc, ctx, root, s, cname, rule, index, node, can):
        pass

    def on_transition(self, acc, ctx, root, s, cname, rule, index, node, result, change, error):
        pass


def explore_text(acc, visitor, text, depth, want_root):
    """BFS to `depth` from parse(text).  ctx = {'text', 'trace'} identifies each state."""
    try:
        root = RW.parse(text)
    except Exception:  # noqa - unparsable start texts are C03/C10's business
        acc.count("start_unparsable")
        return
    s0 = SG.sig(root)
    is_eq = s0[0] == "="
    if want_root == "expr" and is_eq:
        return
    if want_root == "eqn" and not is_eq:
        return
    seen = {s0}
    queue = deque([(root, s0, [])])
    while queue:
        cur, s, trace = queue.popleft()
        acc.count("states")
        acc.key(hash(s))
        ctx = {"text": text, "trace": trace}
        visitor.on_state(acc, ctx, cur, s)
        nodes = RW.inorder(cur)
        for cname, rule in RW.configs():
            for index, node in enumerate(nodes):
                try:
                    can = rule.can_apply_to(node)
                except Exception as e:  # noqa
                    can = e
                visitor.on_node(acc, ctx, cur, s, cname, rule, index, node, can)
                if isinstance(can, Exception) or not can:
                    continue
                acc.count("transitions")
                acc.count("applied:" + cname)
                result = change = error = None
                try:
                    result, change = RW.step(cur, rule, index)
                except Exception as e:  # noqa
                    error = e
                visitor.on_transition(acc, ctx, cur, s, cname, rule, index, node, result, change, error)
                if error is None and result is not None and len(trace) + 1 < depth:
                    try:
                        nroot = RW.get_root(result)
                        ns = SG.sig(nroot)
                    except Exception:  # noqa
                        continue
                    if ns not in seen and not SG.arity_problems(ns) and SG.size(ns) <= 40:
                        seen.add(ns)
                        queue.append((nroot, ns, trace + [[cname, index]]))


_TASK = {}


def _work(task):
    vis_factory, texts_key, lo, hi, depth, want_root = task
    texts = _TASK[texts_key]
    acc = Acc()
    visitor = vis_factory()
    for i in range(lo, hi):
        explore_text(acc, visitor, texts[i], depth, want_root)
    return acc


def run(vis_factory, texts, depth, want_root, seed, heavy_first=0):
    """heavy_first: the first N texts are expensive (many variables): one small task each."""
    texts = list(dict.fromkeys(texts))
    _TASK["texts"] = texts
    n = len(texts)
    parts = [(i, min(i + 8, heavy_first)) for i in range(0, heavy_first, 8)]
    size = 400
    rest = [(i, min(i + size, n)) for i in range(heavy_first, n, size)]
    k = seed % max(1, len(rest))
    rest = rest[k:] + rest[:k]
    # long tasks first, deterministic order of results
    tasks = [(vis_factory, "texts", lo, hi, depth, want_root) for lo, hi in parts + rest[::-1]]
    accs = par.pmap(_work, tasks)
    acc = merge_all(accs)
    acc.n["start_texts"] = n
    return acc


def replay_last(case):
    """Re-run a recorded trace; returns (before_root, s, cname, rule, index, node, result, change, error)."""
    text, trace = case["text"], case["trace"]
    roots = RW.run_trace(text, trace)
    cur = roots[-1]
    cname, index = case["cfg"], case["index"]
    rule = RW.config(cname)
    nodes = RW.inorder(cur)
    node = nodes[index]
    result = change = error = None
    try:
        result, change = RW.step(cur, rule, index)
    except Exception as e:  # noqa
        error = e
    return cur, SG.sig(cur), cname, rule, index, node, result, change, error
