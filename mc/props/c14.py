"""C14 - traversals and look-ups visit exactly the right nodes in the right order.

Space: every binary tree shape with <= N nodes (one-child nodes included) x the three orders
x every stop position, on real BinaryTreeNode and MathExpression-family objects."""
from .. import par
from ..acc import Acc, merge_all
from ..gen import shapes as S

LEVEL = "exploration"
BOUND = {"quick": 8, "thorough": 11}
ORDERS = ("preorder", "inorder", "postorder")


def _ref(root, order):
    """[(node, depth)] by the defining recursion, links only."""
    out = []

    def rec(n, d):
        if n is None:
            return
        if order == "preorder":
            out.append((n, d))
        rec(n.left, d + 1)
        if order == "inorder":
            out.append((n, d))
        rec(n.right, d + 1)
        if order == "postorder":
            out.append((n, d))

    rec(root, 0)
    return out


def _build(shape, family):
    from mathy_core import expressions as E
    from mathy_core.tree import BinaryTreeNode

    if family == "tree":
        return S.build(shape, BinaryTreeNode), None
    root = S.build(shape, E.MathExpression)
    # mixed node classes + duplicated ids for the look-up queries
    classes = [E.MathExpression, E.ConstantExpression, E.VariableExpression, E.AddExpression, E.NegateExpression]
    nodes = S.preorder(root)
    # rebuild with per-position classes (links set through the public setters)
    repl = {}
    for k, n in enumerate(nodes):
        m = classes[k % len(classes)]()
        m.id = f"d{k // 2}"  # duplicates: two nodes share each id
        repl[id(n)] = m
    for n in nodes:
        m = repl[id(n)]
        if n.left is not None:
            m.set_left(repl[id(n.left)])
        if n.right is not None:
            m.set_right(repl[id(n.right)])
    return repl[id(root)], classes


def check_shape(shape, family, only=None):
    """Return [(core, detail)] for one shape.  `only` restricts to one sub-check (replay)."""
    from mathy_core.tree import STOP

    out = []
    root, classes = _build(shape, family)
    n = S.size(shape)

    def bad(core, detail):
        if only is None or only == core:
            out.append((core, detail))

    for order in ORDERS:
        ref = _ref(root, order)
        visit = getattr(root, "visit_" + order)
        # full traversal, data passed through
        calls = []
        token = object()

        def fn(node, depth, data):
            calls.append((node, depth, data))
            return None

        try:
            ret = visit(fn, 0, token)
        except Exception as e:  # noqa
            bad(f"{order}:raises", repr(e))
            continue
        if [(c[0], c[1]) for c in calls] != ref:
            got = [(c[0].id, c[1]) for c in calls]
            want = [(a.id, d) for a, d in ref]
            if [c[0] for c in calls] != [a for a, _ in ref]:
                bad(f"{order}:wrong-sequence", f"got {got} want {want}")
            else:
                bad(f"{order}:wrong-depth", f"got {got} want {want}")
        if any(c[2] is not token for c in calls):
            bad(f"{order}:data-not-passed", "visitor did not receive the data argument")
        if ret is not None:
            bad(f"{order}:full-visit-returns", repr(ret))
        # every stop position
        for i in range(n):
            seen = []

            def stopper(node, depth, data, i=i, seen=seen):
                seen.append(node)
                if len(seen) == i + 1:
                    return STOP
                return None

            try:
                r = visit(stopper)
            except Exception as e:  # noqa
                bad(f"{order}:stop-raises", repr(e))
                break
            if len(seen) != i + 1:
                bad(f"{order}:callbacks-after-stop", f"stop at call {i + 1}, saw {len(seen)} callbacks")
                break
            if seen != [a for a, _ in ref[: i + 1]]:
                bad(f"{order}:stop-prefix-wrong", f"stop at {i + 1}")
                break
            if r != STOP:
                bad(f"{order}:stop-not-returned", f"stop at call {i + 1} returned {r!r}")
                break

    # the stop signal is the VALUE "stop" (VisitStop = Literal["stop"]), not one particular string object
    if n >= 2:
        for order in ORDERS:
            seen2 = []

            def early(node, depth, data, seen2=seen2):
                seen2.append(node)
                return "".join(["st", "op"])  # equal to STOP, built at run time

            try:
                r2 = getattr(root, "visit_" + order)(early)
                if len(seen2) != 1 or r2 != STOP:
                    bad(f"{order}:equal-stop-value-ignored", f"visitor returned an equal 'stop' string: {len(seen2)} callbacks")
            except Exception as e:  # noqa
                bad(f"{order}:stop-raises", repr(e))
    # link-structure queries
    nodes = S.preorder(root)
    for nd in nodes:
        try:
            if nd.get_root() is not root:
                bad("get_root", nd.id)
            kids = [c for c in (nd.left, nd.right) if c is not None]
            got = nd.get_children()
            if len(got) != len(kids) or any(a is not b for a, b in zip(got, kids)):
                bad("get_children", nd.id)
            if nd.is_leaf() != (not kids):
                bad("is_leaf", nd.id)
            if nd.left is not None and nd.get_side(nd.left) != "left":
                bad("get_side", nd.id)
            if nd.right is not None and nd.get_side(nd.right) != "right":
                bad("get_side", nd.id)
            if nd.parent is not None:
                p = nd.parent
                sib = p.right if p.left is nd else p.left
                if nd.get_sibling() is not sib:
                    bad("get_sibling", nd.id)
                top = nd
                while top.parent is not root:
                    top = top.parent
                want = "left" if root.left is top else "right"
                if nd.get_root_side() != want:
                    bad("get_root_side", f"{nd.id}: {nd.get_root_side()} != {want}")
            else:
                if nd.get_sibling() is not None:
                    bad("get_sibling", "root has a sibling")
            # a node that is not a child must be refused
            stranger = type(nd)()
            try:
                nd.get_side(stranger)
                bad("get_side-accepts-stranger", nd.id)
            except ValueError:
                pass
        except Exception as e:  # noqa
            bad("query-raises", f"{nd.id}: {e!r}")

    if family == "expr":
        ino = [a for a, _ in _ref(root, "inorder")]
        for order in ORDERS:
            want = [a for a, _ in _ref(root, order)]
            got = root.to_list(order)
            if len(got) != len(want) or any(a is not b for a, b in zip(got, want)):
                bad(f"to_list:{order}", "listing differs from the traversal")
        try:
            root.to_list("sideways")
            bad("to_list:accepts-invalid-order", "")
        except ValueError:
            pass
        ids = sorted({x.id for x in ino})
        for the_id in ids + ["nope"]:
            want = next((x for x in ino if x.id == the_id), None)
            if root.find_id(the_id) is not want:
                bad("find_id", f"id {the_id}: not the first in-order match")
        for cls in classes:
            want = [x for x in ino if isinstance(x, cls)]
            got = root.find_type(cls)
            if len(got) != len(want) or any(a is not b for a, b in zip(got, want)):
                bad("find_type", cls.__name__)
        # default depth / default data for to_list's visitor are implied; check visit default depth
        first = []
        root.visit_preorder(lambda nn, d, data: first.append((d, data)) or "stop")
        if first != [(0, None)]:
            bad("default-depth-or-data", repr(first))
    # queries after re-linking: ask, move a subtree to another tree through the public setters, ask again
    if n >= 2 and n <= 7:
        for k in range(1, n):
            r1, cl = _build(shape, family)
            r2 = type(r1)()
            r2.id = "other-root"
            ns = S.preorder(r1)
            nd = ns[k]
            ids_before = {x.id for x in S.preorder(nd)}
            try:
                for x in S.preorder(nd):
                    x.get_root()
                    if x.parent is not None:
                        x.get_root_side()
                if family == "expr":
                    for the_id in sorted(ids_before):
                        r1.find_id(the_id)
                    # list every node's subtree in every order BEFORE the move (a listing must never be remembered)
                    for x in ns:
                        for order in ("preorder", "inorder", "postorder"):
                            x.to_list(order)
                        x.find_type(type(r1))
                par_ = nd.parent
                side = "left" if par_.left is nd else "right"
                if side == "left":
                    par_.set_left(None)
                else:
                    par_.set_right(None)
                r2.set_right(nd)
                for x in S.preorder(nd):
                    if x.get_root() is not r2:
                        bad("get_root-after-relinking", f"node {x.id} moved under another root still reports the old root")
                        break
                    if x.get_root_side() != "right":
                        bad("get_root_side-after-relinking", f"node {x.id}")
                        break
                if family == "expr":
                    ino = [a for a, _ in _ref(r1, "inorder")]
                    for the_id in sorted(ids_before):
                        want = next((x for x in ino if x.id == the_id), None)
                        if r1.find_id(the_id) is not want:
                            bad("find_id-after-relinking", f"id {the_id}: the node was moved out of the tree")
                            break
                    for x in [y for y in ns if id(y) not in {id(z) for z in S.preorder(nd)}] + [r2]:
                        for order in ("preorder", "inorder", "postorder"):
                            want_l = [a for a, _ in _ref(x, order)]
                            got_l = x.to_list(order)
                            if len(got_l) != len(want_l) or any(a is not b for a, b in zip(got_l, want_l)):
                                bad(f"to_list-after-relinking:{order}", "listing of an ancestor does not follow the current links")
                        want_t = [a for a, _ in _ref(x, "inorder")]
                        got_t = x.find_type(type(r1))
                        if len(got_t) != len(want_t) or any(a is not b for a, b in zip(got_t, want_t)):
                            bad("find_type-after-relinking", "")
            except Exception as e:  # noqa
                bad("query-after-relinking-raises", repr(e)[:120])
            # ... and after REPLACING a subtree in place (the replaced node keeps its stale parent pointer, as the
            # default of set_left / set_right leaves it)
            if family == "expr":
                try:
                    r3, _cl = _build(shape, family)
                    ns3 = S.preorder(r3)
                    nd3 = ns3[k]
                    old_ids = sorted({x.id for x in S.preorder(nd3)})
                    for the_id in old_ids:
                        r3.find_id(the_id)
                    for x in ns3:
                        for order in ("preorder", "inorder", "postorder"):
                            x.to_list(order)
                    fresh_leaf = type(r3)()
                    fresh_leaf.id = "replacement"
                    p3 = nd3.parent
                    if p3.left is nd3:
                        p3.set_left(fresh_leaf)
                    else:
                        p3.set_right(fresh_leaf)
                    ino3 = [a for a, _ in _ref(r3, "inorder")]
                    for the_id in old_ids + ["replacement"]:
                        want = next((x for x in ino3 if x.id == the_id), None)
                        if r3.find_id(the_id) is not want:
                            bad("find_id-after-replacement", f"id {the_id}: find_id does not follow the current links")
                            break
                    for x in [y for y in ns3 if id(y) not in {id(z) for z in S.preorder(nd3)}]:
                        for order in ("preorder", "inorder", "postorder"):
                            want_l = [a for a, _ in _ref(x, order)]
                            got_l = x.to_list(order)
                            if len(got_l) != len(want_l) or any(a is not b for a, b in zip(got_l, want_l)):
                                bad(f"to_list-after-replacement:{order}", "listing does not follow the current links")
                except Exception as e:  # noqa
                    bad("query-after-replacement-raises", repr(e)[:120])
    seen = set()
    res = []
    for c, d in out:
        if c not in seen:
            seen.add(c)
            res.append((c, d))
    return res


def _work(task):
    n, lo, hi, family = task
    acc = Acc()
    shp = S.shapes(n)
    for si in range(lo, hi):
        shape = shp[si]
        acc.count("shapes")
        acc.count("traversals", 3 * (n + 1))
        if n > 1:
            acc.count("nontrivial")
        for core, detail in check_shape(shape, family):
            acc.violation(core, {"shape": S.show(shape), "family": family, "only": core}, detail)
        if si == lo and n >= 4:
            acc.sample({"shape": S.show(shape), "family": family, "orders": ORDERS, "stop_positions": list(range(n))})
    return acc


def run(tier, seed):
    N = BOUND[tier]
    tasks = []
    for n in range(1, N + 1):
        total = len(S.shapes(n))
        for family in ("tree", "expr"):
            if family == "expr" and n > N - 1:
                continue
            for lo, hi in par.chunks(total, 16 if total > 1000 else 1):
                tasks.append((n, lo, hi, family))
    k = seed % len(tasks)
    tasks = tasks[k:] + tasks[:k]
    acc = merge_all(par.pmap(_work, tasks))
    cov = {
        "evaluations": acc.n["traversals"],
        "distinct_nontrivial": acc.n["nontrivial"],
        "rule": f"all binary tree shapes with 1..{N} nodes (0/left-only/right-only/2 children per node), as BinaryTreeNode "
                f"and (<= {N - 1} nodes) as mixed-class MathExpression trees with duplicated ids; per shape: 3 orders x "
                "(1 full visit + every stop position) plus all link queries on every node, and (<= 7 nodes) two histories per non-root node - list / look up everything, move or replace that subtree through the public setters, list / look up again from every remaining node and compare with the current links. evaluations = traversal runs; "
                "distinct_nontrivial = distinct (shape, family) pairs with more than one node",
        "exhaustive": True,
        "bound": {"max_nodes": N},
        "shapes": acc.n["shapes"],
    }
    return acc, cov, ["reference orders are the textbook recursions over left/right links"]


def replay(case):
    return check_shape(S.parse(case["shape"]), case["family"], case.get("only"))
