"""C09 - any sequence of rewrites keeps the expression equivalent to the original.

E-rewrite: breadth-first search over the real rules from each seed expression.  State = tree (canonical
key = signature), transition = (configuration, node) applied to node.clone_from_root().  Every new state is
audited, printed and re-parsed, and compared with the START state (so drift accumulates visibly).  Every
stored state keeps the live object and a snapshot taken at creation; the snapshot is re-verified when the
state is dequeued for expansion and once more for all states at the end (states reached earlier are
never altered by later steps)."""
from collections import deque

from .. import par
from .. import sig as SG
from ..acc import Acc, merge_all
from ..explore import choice as CH
from ..explore import rewrite as RW
from ..gen import exprs as X
from ..oracle import audit, equiv
from ..repo import REPO
from . import c04

LEVEL = "model_checking"
DEPTH = {"quick": 4, "thorough": 5}
CAP = {"quick": 4000, "thorough": 12000}

DOC_SEEDS = [
    "4x + 2x", "2x + 3x + 4", "(x + 1) * (x + 2)", "x * x * x", "2 * 3 * x", "4 - 2x + 6", "x / 2 + 3", "(2 + 3) * x^2",
    "2x^2 * 3x^3", "4x - 4x", "x + -x", "7 - (2 + x)", "-(x + 2) + 3", "2^(1 + 2) * x", "x^2 * x^-1", "0.5x + 1.5x",
    "2x + 1 = 7", "3x = 9", "x + 2 = 3 - x", "2x + 3 = x + 5", "4 = 2x + 2", "x^2 + 2x = 3", "-x = 3 - 2x", "x / 2 = 3 + 1",
    "(x + 1) * 2 = 6", "3 - x = x - 3",
]


def generator_seeds():
    """outputs of the problem generators under the default choice policy"""
    from mathy_core import problems as P

    out = []
    calls = [("gen_simplify_multiple_terms", dict(num_terms=3)), ("gen_simplify_multiple_terms", dict(num_terms=4, op="+")),
             ("gen_binomial_times_binomial", {}), ("gen_binomial_times_monomial", {}),
             ("gen_move_around_blockers_one", dict(number_blockers=1)), ("gen_move_around_blockers_two", dict(number_blockers=1)),
             ("gen_commute_haystack", dict(min_terms=3, max_terms=4)), ("gen_combine_terms_in_place", dict(min_terms=3, max_terms=4))]
    for policy in ("first", "cycle"):
        for gen, kw in calls:
            orc = CH.Oracle([], policy)
            CH.install(P)
            try:
                with CH.owned(orc):
                    out.append(getattr(P, gen)(**kw)[0])
            except Exception:  # noqa
                pass
    return out


def wide_seeds(tier):
    """many small seeds covering the operand classes the rules distinguish (zero / unit / negative / fractional
    coefficients and exponents) and every ancestor context of the balanced move; explored less deep"""
    s = X.termsums(2, X.TERMS_T, ["+", "*"])
    s += ["x^(2 + -2) * x^3", "x^(1 - 1) * x", "(2 - 2) * x + x", "x^2 * x^(3 - 3)", "0x + 2x", "x + 0x", "(1 - 1)x^2 * x"]
    s += X.FOLD_MAGNITUDES
    ctx = X.contexts(1)
    s += ctx[:: (3 if tier == "quick" else 1)]
    s += X.equations(["2", "-3", "x", "2x", "0x", "x^2"], ("+", "-", "*"))[:: (5 if tier == "quick" else 1)]
    return list(dict.fromkeys(s))


def seeds(tier):
    s = list(DOC_SEEDS)
    repo = X.repo_inputs(REPO)
    small = [t for t in repo if len(t) <= (22 if tier == "quick" else 60)]
    s += small[: (30 if tier == "quick" else 400)]
    s += generator_seeds()
    if tier == "thorough":
        s += X.termsums(2, X.TERMS_T)[::7]
        s += X.equations()[::40]
        s += X.flat_chains(3, ["2", "x", "2x", "x^2", "-3"], ("+", "*"))[::3]
    return list(dict.fromkeys(s))


def judge_state(start_s, s, root):
    """[(kind, detail)] for a newly reached state"""
    out = []
    probs = audit.link_audit(root)
    if probs:
        return [("not-well-formed:links", "; ".join(probs[:2]))]
    ar = SG.arity_problems(s)
    if ar:
        return [("not-well-formed:arity", "; ".join(ar[:2]))]
    if c04.finite(s):
        rt = c04.roundtrip(root, s)
        if rt is not None:
            out.append(("does-not-print-and-reparse:" + rt[0], rt[1]))
    if (s[0] == "=") != (start_s[0] == "="):
        out.append(("equation-status-changed", f"{SG.show(start_s)} ~> {SG.show(s)}"))
        return out
    if c04.finite(s):
        vd = equiv.same_solutions(start_s, s) if s[0] == "=" else equiv.same_function(start_s, s)
        if not vd.same:
            out.append(("not-equivalent-to-start", f"{SG.show(start_s)} ~> {SG.show(s)} differ at {vd.witness}"))
        elif s[0] != "=":
            from . import c01
            stress = c01.stress_evaluate(start_s, s, root)
            if stress:
                out.append(("not-equivalent-to-start-under-evaluate", stress))
    return out


def bfs(acc, text, depth, cap):
    RW.reset_configs()  # rule-object state may depend only on this seed's history
    try:
        root = RW.parse(text)
    except Exception:  # noqa
        return
    s0 = SG.sig(root)
    nodes0 = audit.all_nodes(root)
    store = {s0: (root, nodes0, audit.snapshot(nodes0), [])}
    queue = deque([s0])
    capped = False
    acc.count("seeds")
    while queue:
        key = queue.popleft()
        cur, cnodes, csnap, trace = store[key]
        # history isolation: the stored state must still be what it was when it was created
        if audit.snapshot(cnodes) != csnap or SG.sig(cur) != key:
            acc.violation("earlier-state-altered-by-later-steps", {"text": text, "trace": trace, "mode": "isolation"},
                          f"state {SG.show(key)} reached by {trace} was modified before its expansion")
            continue
        if len(trace) >= depth:
            continue
        nodes = RW.inorder(cur)
        for cname, rule in RW.configs():
            for index, node in enumerate(nodes):
                try:
                    if not rule.can_apply_to(node):
                        continue
                except Exception:  # noqa
                    continue
                acc.count("transitions")
                try:
                    res, _ = RW.step(cur, rule, index)
                    nroot = RW.get_root(res)
                    ns = SG.sig(nroot)
                except Exception as e:  # noqa
                    acc.violation(f"step-raises:{type(e).__name__}|{cname}|{RW.neighbourhood(node)}",
                                  {"text": text, "trace": trace + [[cname, index]], "mode": "step"}, repr(e)[:200])
                    continue
                if ns in store:
                    acc.count("merged_duplicates")
                    continue
                ntrace = trace + [[cname, index]]
                for kind, detail in judge_state(s0, ns, nroot):
                    acc.violation(f"{kind}|{cname}|{RW.neighbourhood(node)}", {"text": text, "trace": ntrace, "mode": "state"},
                                  f"after {ntrace} from {text!r}: {detail}")
                if len(store) >= cap:
                    capped = True
                    continue
                nn = audit.all_nodes(nroot)
                store[ns] = (nroot, nn, audit.snapshot(nn), ntrace)
                queue.append(ns)
                acc.n["max_depth"] = max(acc.n["max_depth"], len(ntrace))
    # final re-verification of every stored state + replay of recorded traces
    for i, (key, (cur, cnodes, csnap, trace)) in enumerate(store.items()):
        if audit.snapshot(cnodes) != csnap or SG.sig(cur) != key:
            acc.violation("earlier-state-altered-by-later-steps", {"text": text, "trace": trace, "mode": "isolation"},
                          f"state {SG.show(key)} reached by {trace} was modified by later steps")
        if i % 5 == 0:
            try:
                again = SG.sig(RW.run_trace(text, trace)[-1])
            except Exception:  # noqa
                again = None
            if again != key:
                acc.violation("harness:trace-does-not-replay", {"text": text, "trace": trace, "mode": "replay"}, SG.show(key))
            else:
                acc.count("traces_replayed")
    acc.count("states", len(store))
    if capped:
        acc.count("capped_seeds")
    acc.sample({"seed": text, "states": len(store), "depth": depth, "capped": capped})


_SEEDS = []


def _work(task):
    i, depth, cap = task
    acc = Acc()
    bfs(acc, _SEEDS[i], depth, cap)
    return acc


def run(tier, seed):
    deep = seeds(tier)
    wide = [t for t in wide_seeds(tier) if t not in set(deep)]
    _SEEDS[:] = deep + wide
    d, cap = DEPTH[tier], CAP[tier]
    dw = d - 1
    # long seeds (many terms) have the widest state graphs: one level less keeps them complete below the cap
    tasks = [(i, d if len(deep[i]) <= 30 else d - 1, cap) for i in range(len(deep))]
    # long seeds first
    tasks.sort(key=lambda t: -len(_SEEDS[t[0]]))
    tasks += [(i, dw, cap) for i in range(len(deep), len(_SEEDS))]
    acc = merge_all(par.pmap(_work, tasks))
    cov = {
        "states": acc.n["states"],
        "transitions": acc.n["transitions"],
        "traces_validated_against_impl": acc.n["traces_replayed"],
        "exhaustive": acc.n["capped_seeds"] == 0,
        "bound": {"depth_deep_seeds": d, "deep_seeds": len(deep), "depth_of_deep_seeds_longer_than_30_chars": d - 1,
                  "depth_wide_seeds": dw, "wide_seeds": len(wide),
                  "state_cap_per_seed": cap},
        "seeds_that_hit_the_state_cap": acc.n["capped_seeds"],
        "max_depth_reached": acc.n["max_depth"],
        "merged_duplicate_states": acc.n["merged_duplicates"],
        "explanation": f"breadth-first search to depth {d} from {len(deep)} seeds (documentation-style examples, repository rule examples, "
                       f"problem-generator outputs) and to depth {dw} from {len(wide)} small seeds covering every operand class and every "
                       "ancestor context of the balanced move; every reachable canonical state is expanded with every "
                       "applicable (configuration, node) transition executed on clone_from_root; each new state is audited, printed and "
                       "re-parsed and compared with the START state; stored live states are re-verified against their creation snapshot "
                       "at expansion time and at the end; every fifth state's recorded trace is replayed from the seed text",
    }
    return acc, cov, ["seeds that reach the state cap are reported; below the cap the search is complete to the stated depth",
                      "canonical key = structural signature (DESIGN.md section 2 argues that merged states have the same futures)"]


def replay(case):
    """direct replay of the recorded trace; a violation that depends on state rule objects carried over from the
    exploration of the same seed is reproduced by re-running that seed's search from fresh rule objects"""
    want = case.get("_core")
    try:
        got = par.run_fresh(_replay_direct, case)  # own process: must not pollute the next level
    except Exception:  # noqa
        got = []
    if got and (want is None or any(c == want for c, _ in got)):
        return got
    a = Acc()
    bfs(a, case["text"], max(1, len(case["trace"])), 30000)
    again = [(c, e["examples"][0]["detail"]) for c, e in a.viol.items()]
    if want is not None and any(c == want for c, _ in again):
        return [(c, d) for c, d in again if c == want]
    return again or got


def _replay_direct(case):
    text, trace = case["text"], case["trace"]
    if case.get("mode") == "isolation":
        a = Acc()
        bfs(a, text, max(1, len(trace) + 1), 5000)
        return [(c, e["examples"][0]["detail"]) for c, e in a.viol.items() if c.startswith("earlier-state")]
    try:
        roots = RW.run_trace(text, trace[:-1])
    except Exception as e:  # noqa
        return []
    cur = roots[-1]
    cname, index = trace[-1]
    node = RW.inorder(cur)[index]
    nb = RW.neighbourhood(node)
    try:
        res, _ = RW.step(cur, RW.config(cname), index)
        nroot = RW.get_root(res)
    except Exception as e:  # noqa
        return [(f"step-raises:{type(e).__name__}|{cname}|{nb}", repr(e))]
    s0 = SG.sig(RW.parse(text))
    return [(f"{k}|{cname}|{nb}", d) for k, d in judge_state(s0, SG.sig(nroot), nroot)]
