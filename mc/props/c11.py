"""C11 - tokenizing is lossless, total and faithful to character classes.

Space: every string of length <= N over a 27-character alphabet (one or two representatives of every
character class the property names, the three aliases, blanks, and two unsupported characters), in both
padding modes.  Oracle: the reference lexer O-lex."""
from .. import par, watchdog
from ..acc import Acc, merge_all
from ..gen import strings as G
from ..oracle import reflex

LEVEL = "exploration"
ALPHABET = ["0", "7", ".", "x", "s", "g", "n", "A", "S", "+", "-", "*", "/", "^", "!", "=", "(", ")", "[", "]",
            " ", "\t", "\n", "–", "#", "é", "\xa0"]
BOUND = {"quick": 4, "thorough": 5}


def _names():
    from mathy_core.tokenizer import TOKEN_TYPES

    return {getattr(TOKEN_TYPES, k): k for k in dir(TOKEN_TYPES) if not k.startswith("_")}


_NAMES = None
_TOK = {}


def _tokenizer(keep):
    """a fresh tokenizer per call: every string is judged on its own (call histories are a separate pass)"""
    from mathy_core.tokenizer import Tokenizer

    return Tokenizer(exclude_padding=not keep)


def _observe(tok, text):
    try:
        return ("tokens", tuple((t.type, t.value) for t in tok.tokenize(text)))
    except Exception as e:  # noqa
        return ("raise", type(e).__name__)


def check_history(texts, keep):
    """one long-lived tokenizer: every call must answer as a fresh tokenizer does.  An entry ('flip',) toggles
    the public exclude_padding attribute of the live object between calls."""
    tok = _tokenizer(keep)
    for i, t in enumerate(texts):
        if isinstance(t, (tuple, list)):
            keep = not keep
            tok.exclude_padding = not keep
            continue
        got = _observe(tok, t)
        want = _observe(_tokenizer(keep), t)
        if got != want:
            return [("result-depends-on-earlier-calls", f"call {i + 1} tokenize({t!r}) after {texts[:i]!r}: {str(got)[:120]} vs fresh {str(want)[:120]}")]
    return []


def long_run_texts():
    """runs far longer than any enumerated string: a constant, a letter run, blanks, and their neighbours"""
    out = []
    for n in (63, 64, 65, 66, 127, 128, 129, 300):
        out += ["7" * n, "7" * n + ".5", "0." + "0" * n + "1", "x" * n, " " * n + "x", "7" * n + "x", "x" + "7" * n, "(" * n,
                "s" * n + "gn", "7" * (n - 1) + " " + "7", ("7" * 10 + "+") * (n // 8)]
    return out


def _all_strings(maxlen):
    out = []
    for n in range(0, maxlen + 1):
        out += ["".join(x) for x in G.iterate(ALPHABET, n, 0, len(ALPHABET) ** n)]
    return out


def _work_hist(task):
    firsts, seconds = task
    acc = Acc()
    for a in firsts:
        for b in seconds:
            for keep in (True, False):
                acc.count("runs")
                acc.count("histories")
                for kind, detail in check_history([a, b], keep):
                    acc.violation(f"{kind}|{a!r} ; {b!r}|padding={'kept' if keep else 'dropped'}",
                                  {"texts": [a, b], "keep": keep, "kind": kind}, detail)
                if len(a) <= 1 or len(b) <= 1:
                    acc.count("histories")
                    for kind, detail in check_history([a, ("flip",), b], keep):
                        acc.violation(f"{kind}|{a!r} ; flip padding mode ; {b!r}|padding={'kept' if keep else 'dropped'}",
                                      {"texts": [a, ["flip"], b], "keep": keep, "kind": kind}, detail)
    return acc


def check_text(text, keep):
    """[(kind, detail)]"""
    global _NAMES
    if _NAMES is None:
        _NAMES = _names()
        watchdog.install()
    try:
        want = reflex.lex(text, keep_padding=keep)
    except reflex.Unsupported:
        want = None
    ok, got = watchdog.guarded(_tokenizer(keep).tokenize, text)
    if not ok:
        if isinstance(got, watchdog.Timeout):
            return [("does-not-terminate", "tokenize ran for 10 s")]
        if isinstance(got, ValueError):
            if want is None:
                return []
            return [("rejects-supported-text", repr(got))]
        return [(f"raises:{type(got).__name__}", repr(got))]
    if want is None:
        return [("accepts-unsupported-character", f"returned {len(got)} tokens")]
    out = []
    try:
        pairs = [(_NAMES.get(t.type, str(t.type)), t.value) for t in got]
    except Exception as e:  # noqa
        return [("malformed-token-objects", repr(e))]
    if pairs != want:
        # name the first broken guarantee
        eofs = [i for i, p in enumerate(pairs) if p[0] == "EOF"]
        if eofs != [len(pairs) - 1]:
            out.append(("end-marker", f"EOF positions {eofs} of {len(pairs)} tokens"))
        joined = "".join(v for _, v in pairs)
        if joined != reflex.normalise(text, keep):
            out.append(("lossy", f"values concatenate to {joined!r}, input normalises to {reflex.normalise(text, keep)!r}"))
        if not out:
            out.append(("wrong-classification", f"got {pairs} want {want}"))
    else:
        if sum(len(v) for _, v in pairs) != len(reflex.normalise(text, keep)):
            out.append(("length", "token value lengths do not sum to the input length"))
    return out


def shrink(text, keep, kind):
    """delete characters while the same kind of failure persists"""
    changed = True
    while changed and len(text) > 1:
        changed = False
        for i in range(len(text)):
            cand = text[:i] + text[i + 1:]
            if any(k == kind for k, _ in check_text(cand, keep)):
                text = cand
                changed = True
                break
    return text


def _work(task):
    n, lo, hi = task
    acc = Acc()
    for syms in G.iterate(ALPHABET, n, lo, hi):
        text = "".join(syms)
        pads = None
        for keep in (True, False):
            acc.count("runs")
            res = check_text(text, keep)
            for kind, detail in res:
                small = shrink(text, keep, kind)
                acc.violation(f"{kind}|{small!r}|padding={'kept' if keep else 'dropped'}",
                              {"text": small, "keep": keep, "kind": kind}, f"input {text!r}: {detail}")
        # dropping padding only removes the whitespace tokens (compared on the implementation itself)
        try:
            a = [(t.type, t.value) for t in _tokenizer(True).tokenize(text)]
            b = [(t.type, t.value) for t in _tokenizer(False).tokenize(text)]
            from mathy_core.tokenizer import TOKEN_TYPES
            if [p for p in a if p[0] != TOKEN_TYPES.Pad] != b:
                acc.violation(f"padding-modes-disagree|{text!r}", {"text": text, "keep": None, "kind": "padding-modes-disagree"}, "")
            acc.count("accepted")
            if len(a) > 2:
                acc.count("multi_token")
        except ValueError:
            acc.count("rejected")
        except Exception:  # noqa
            pass
    if lo == 0 and n >= 3:
        acc.sample({"length": n, "first": "".join(G.nth(ALPHABET, n, lo)), "last": "".join(G.nth(ALPHABET, n, hi - 1))})
    return acc



def _disturb_task(_):
    from ..explore import disturb

    acc = Acc()
    acc.count("disturbance_rounds", 7)
    for core, detail in disturb.differential('token-streams', disturb.token_battery):
        acc.violation(core, {"disturb": True}, detail)
    return acc

def run(tier, seed):
    N = BOUND[tier]
    tasks = G.tasks(len(ALPHABET), N, parts_per_len=128)
    k = seed % len(tasks)
    tasks = tasks[k:] + tasks[:k]
    acc = merge_all(par.pmap(_work, tasks))
    lr = Acc()
    for text in long_run_texts():
        for keep in (True, False):
            lr.count("runs")
            lr.count("long_run_cases")
            for kind, detail in check_text(text, keep):
                lr.violation(f"{kind}|long-run|{text[:12]!r}..x{len(text)}|padding={'kept' if keep else 'dropped'}",
                             {"text": text, "keep": keep, "kind": kind, "long": True}, f"input of {len(text)} characters: {detail[:200]}")
    acc.merge(lr)
    s1, s2 = _all_strings(1), _all_strings(2)
    if tier == "quick":
        ht = [(s2[i::16], s1) for i in range(16)] + [(s1, s2[i::16]) for i in range(16)]
    else:
        ht = [(s2[i::64], s2) for i in range(64)]
    acc.merge(merge_all(par.pmap(_work_hist, ht)))
    total = sum(len(ALPHABET) ** n for n in range(0, N + 1))
    acc.merge(par.run_fresh(_disturb_task, None))  # differential: a fixed battery before / after unrelated calls
    cov = {
        "evaluations": acc.n["runs"],
        "distinct_nontrivial": acc.n["multi_token"],
        "rule": f"every string of length 0..{N} over {len(ALPHABET)} characters ({total} strings) x both padding modes; "
                "evaluations = tokenizer runs; distinct_nontrivial = distinct accepted strings that produce more than one "
                "token before the end marker",
        "exhaustive": True,
        "bound": {"max_length": N, "alphabet": ALPHABET},
        "accepted": acc.n["accepted"], "rejected_unsupported": acc.n["rejected"],
        "two_call_histories_on_one_tokenizer": acc.n["histories"],
    }
    return acc, cov, ["one or two representative characters per class (digits 0 7, letters x s g n A, every operator and alias, "
                      "three blanks, two unsupported characters)"]


def replay(case):
    if isinstance(case, dict) and case.get("disturb"):
        from ..explore import disturb
        return disturb.differential('token-streams', disturb.token_battery)
    if case.get("kind") == "result-depends-on-earlier-calls":
        keep = case["keep"]
        if len(case["texts"]) == 3:
            a, _, b = case["texts"]
            return [(f"{k}|{a!r} ; flip padding mode ; {b!r}|padding={'kept' if keep else 'dropped'}", d)
                    for k, d in check_history([a, ("flip",), b], keep)]
        a, b = case["texts"]
        return [(f"{k}|{a!r} ; {b!r}|padding={'kept' if keep else 'dropped'}", d) for k, d in check_history([a, b], keep)]
    if case.get("kind") == "padding-modes-disagree":
        from mathy_core.tokenizer import TOKEN_TYPES
        a = [(t.type, t.value) for t in _tokenizer(True).tokenize(case["text"])]
        b = [(t.type, t.value) for t in _tokenizer(False).tokenize(case["text"])]
        return [] if [p for p in a if p[0] != TOKEN_TYPES.Pad] == b else [(f"padding-modes-disagree|{case['text']!r}", "")]
    keep = case["keep"]
    if case.get("long"):
        text = case["text"]
        return [(f"{k}|long-run|{text[:12]!r}..x{len(text)}|padding={'kept' if keep else 'dropped'}", d[:200])
                for k, d in check_text(text, keep) if k == case["kind"]]
    return [(f"{k}|{case['text']!r}|padding={'kept' if keep else 'dropped'}", d) for k, d in check_text(case["text"], keep)
            if k == case["kind"]]
