"""C10 - parsing is total, has a closed error contract and keeps no sticky state.

A. totality / closure: token soups (every token-class string <= N, rendered with and without blanks),
   lexeme concatenations, every prefix (truncation) of the repository's example inputs: each parse runs
   under a watchdog and must end in a well-formed tree or in ParserException / ValueError.
B. bounded nesting: parentheses, negations, functions, power towers nested 1..50 deep must parse, print
   and clone without RecursionError.
C. sticky state: every sequence of <= D parse calls on ONE parser over an alphabet with one input per
   raise site of parser.py / tokenizer.py plus valid inputs: each call must behave as on a fresh parser."""
from .. import par, watchdog
from .. import sig as SG
from ..acc import Acc, merge_all
from ..explore import history as H
from ..gen import exprs as X
from ..gen import strings as G
from ..oracle.audit import link_audit
from ..repo import REPO
from .c03 import LEXEMES

LEVEL = "model_checking"
BOUND = {"quick": 6, "thorough": 7}
LEX_BOUND = {"quick": 3, "thorough": 4}
DEPTH = {"quick": 4, "thorough": 5}
NEST = 50

STICKY = ["2 # 3", "", "2 3", ")", "+", "x =", "x +", "x *", "2 ^", "x ^", "-", "x!", "(x", "(", "sgn", "sgn(", "1.2.3",
          "4x + 2", "x = 2", "sgn(-3)", "5!", "(x + 1)(x - 1)", "23", "s gn(2)", "(" * 64 + "x", "sgn(" * 40 + "x"]


def _ok_errors():
    from mathy_core.parser import ParserException

    return (ParserException, ValueError)


def check_parse(text):
    """[(kind, detail)]"""
    from mathy_core.parser import ExpressionParser

    ok, got = watchdog.guarded(ExpressionParser().parse, text)
    if not ok:
        if isinstance(got, watchdog.Timeout):
            return [("does-not-terminate", "parse ran for 10 s")]
        if isinstance(got, _ok_errors()):
            return []
        return [(f"internal-error:{type(got).__name__}", repr(got)[:200])]
    from mathy_core.expressions import MathExpression

    if not isinstance(got, MathExpression):
        return [("returns-non-tree", repr(got)[:100])]
    probs = link_audit(got)
    if probs:
        return [("malformed-tree:links", "; ".join(probs[:3]))]
    ar = SG.arity_problems(SG.sig(got))
    if ar:
        return [("malformed-tree:arity", "; ".join(ar[:3]))]
    return []


def shrink_text(text, kind, sep):
    parts = text.split(sep) if sep else list(text)
    changed = True
    while changed and len(parts) > 1:
        changed = False
        for i in range(len(parts)):
            cand = parts[:i] + parts[i + 1:]
            if any(k == kind for k, _ in check_parse(sep.join(cand))):
                parts = cand
                changed = True
                break
    return sep.join(parts)


def _classes_of(text):
    out = []
    for t in text.split(" "):
        out.append("C" if t and t[0].isdigit() else ("V" if t in G.VARS else t))
    return " ".join(out)


def _work_soup(task):
    mode, n, lo, hi = task
    watchdog.install()
    acc = Acc()
    alphabet = G.TOKEN_CLASSES if mode == "classes" else LEXEMES
    for syms in G.iterate(alphabet, n, lo, hi):
        if mode == "classes":
            spaced = G.render(syms)
            texts = [(spaced, " "), (spaced.replace(" ", ""), "")]
        else:
            texts = [("".join(syms), "")]
        for text, sep in texts:
            acc.count("parses")
            res = check_parse(text)
            if not res:
                continue
            for kind, detail in res:
                small = shrink_text(text, kind, sep)
                core = f"{kind}|{_classes_of(small) if sep else repr(small)}"
                acc.violation(core, {"part": "A", "text": small, "kind": kind, "sep": sep}, f"input {text!r}: {detail}")
    return acc


def nested(kind, depth):
    s = "x"
    for _ in range(depth):
        if kind == "paren":
            s = f"({s})"
        elif kind == "neg":
            s = f"-({s})"
        elif kind == "fn":
            s = f"sgn({s})"
        elif kind == "pow":
            s = f"2^({s})"
        elif kind == "mix":
            s = f"(1 + 2 * -({s})^2)"
        elif kind == "implicit":
            s = f"2x({s})"
    return s


def check_nesting(kind, depth):
    from mathy_core.parser import ExpressionParser

    text = nested(kind, depth)
    try:
        tree = ExpressionParser().parse(text)
        str(tree)
        tree.clone()
        tree.to_list()
    except RecursionError as e:
        return [(f"recursion-error|{kind}", f"depth {depth}: {e!r}")]
    except _ok_errors():
        return []
    except Exception as e:  # noqa
        return [(f"internal-error:{type(e).__name__}|nest-{kind}", f"depth {depth}: {e!r}")]
    return []


def _obs(p, text):
    try:
        return ("tree", SG.sig(p.parse(text)))
    except Exception as e:  # noqa
        return ("raise", type(e).__name__, str(getattr(e, "message", e)))


_FRESH = {}


def fresh(text):
    from mathy_core.parser import ExpressionParser

    if text not in _FRESH:
        _FRESH[text] = _obs(ExpressionParser(), text)
    return _FRESH[text]


def run_sticky(texts):
    from mathy_core.parser import ExpressionParser

    p = ExpressionParser()
    for i, t in enumerate(texts):
        got = _obs(p, t)
        if got != fresh(t):
            return (i, t, got, fresh(t))
    return None


def _work_sticky(task):
    depth, lo, hi = task
    acc = Acc()
    for idxs in H.sequences(len(STICKY), depth, lo, hi):
        texts = [STICKY[i] for i in idxs]
        acc.count("histories")
        acc.count("steps", depth)
        bad = run_sticky(texts)
        if bad is not None:
            texts = texts[: bad[0] + 1]
            changed = True
            while changed:
                changed = False
                for i in range(len(texts) - 1):
                    cand = texts[:i] + texts[i + 1:]
                    if run_sticky(cand) is not None:
                        texts = cand
                        changed = True
                        break
            b = run_sticky(texts)
            acc.violation("sticky|" + " ; ".join(repr(t) for t in texts), {"part": "C", "texts": texts},
                          f"call {b[0] + 1} parse({b[1]!r}) gave {str(b[2])[:150]}, a fresh parser gives {str(b[3])[:150]}")
    if lo == 0:
        acc.sample({"history": [STICKY[i] for i in H.G.nth(list(range(len(STICKY))), depth, hi // 2)]})
    return acc


SPELLINGS = ["sgn", "Sgn", "SGN", "sgN", "sGn", "abs", "Abs", "sgnn", "xsgn", "sg", "gn", "nsg"]
SPELL_TEMPLATES = ["{f}(2)", "{f}(x)", "2{f}(x)", "{f}(x)^2", "{f} (x)", "{f}(", "{f}", "{f}(x)(y)", "x{f}(2)", "{f}({f}(2))", "-{f}(-2)",
                   "{f}(2)!", "({f})(2)", "{f}2", "{f}^2(x)"]


def _work_misc(task):
    watchdog.install()
    acc = Acc()
    kind = task[0]
    if kind == "nest":
        # every spelling of a letter run around the registered function names, in call-like positions:
        # the tokenizer's function table and the parser's lookup must agree
        # literals far beyond the float range, and very long inputs
        longs = ["1" * 400, "1" * 400 + ".", "18" + "0" * 307 + ".", "1" * 400 + ".5", "0." + "0" * 400 + "1", "1" * 400 + "x",
                 "x^" + "9" * 400, "1" * 400 + " + " + "1" * 400 + ".0", "2^" + "1" * 20, "x" * 300, " + ".join(["x"] * 150), "(" * 150 + "x" + ")" * 150]
        for text in longs:
            acc.count("parses")
            acc.count("long_input_cases")
            for k, detail in check_parse(text):
                acc.violation(f"{k}|long-input|{text[:10]!r}..x{len(text)}", {"part": "A", "text": text, "kind": k, "sep": "", "long": True},
                              f"input of {len(text)} characters: {detail[:160]}")
        for f in SPELLINGS:
            for tpl in SPELL_TEMPLATES:
                text = tpl.format(f=f)
                acc.count("parses")
                acc.count("function_spelling_cases")
                for k, detail in check_parse(text):
                    acc.violation(f"{k}|{text!r}", {"part": "A", "text": text, "kind": k, "sep": ""}, f"input {text!r}: {detail}")
        for nk in ("paren", "neg", "fn", "pow", "mix", "implicit"):
            for d in range(1, NEST + 1):
                acc.count("nesting_cases")
                for core, detail in check_nesting(nk, d):
                    acc.violation(core, {"part": "B", "kind": nk, "depth": d}, detail)
    else:
        for text in task[1]:
            for cut in range(len(text) + 1):
                pre = text[:cut]
                acc.count("parses")
                acc.count("truncations")
                for k, detail in check_parse(pre):
                    small = shrink_text(pre, k, "")
                    acc.violation(f"{k}|{small!r}", {"part": "A", "text": small, "kind": k, "sep": ""}, f"input {pre!r}: {detail}")
    return acc



def _disturb_task(_):
    from ..explore import disturb

    acc = Acc()
    acc.count("disturbance_rounds", 7)
    for core, detail in disturb.differential('parse-results', disturb.parse_battery):
        acc.violation(core, {"disturb": True}, detail)
    return acc

def run(tier, seed):
    N, D = BOUND[tier], DEPTH[tier]
    t_soup = [("classes",) + t for t in G.tasks(len(G.TOKEN_CLASSES), N, parts_per_len=128)]
    t_soup += [("lexemes",) + t for t in G.tasks(len(LEXEMES), LEX_BOUND[tier], parts_per_len=64, min_len=1)]
    k = seed % len(t_soup)
    t_soup = t_soup[k:] + t_soup[:k]
    a1 = merge_all(par.pmap(_work_soup, t_soup))
    inputs = X.repo_inputs(REPO)
    a2 = merge_all(par.pmap(_work_misc, [("nest",)] + [("trunc", inputs[i::15]) for i in range(15)]))
    for t in STICKY:
        fresh(t)
    a3 = merge_all(par.pmap(_work_sticky, H.tasks(len(STICKY), D, parts=64)))
    # a long session of parse calls on one parser (failures every 9th call): no internal error, same answers as fresh
    from . import c12
    a4 = Acc()
    NS = 2500 if tier == "quick" else 10000
    a4.count("session_calls", NS)
    for core, detail in c12.check_session(NS, "parse"):
        a4.violation(core.replace("long-session", "sticky-long-session"), {"part": "S", "session": NS}, detail)
    acc = merge_all([a1, a2, a3, a4])
    acc.merge(par.run_fresh(_disturb_task, None))  # differential: a fixed battery before / after unrelated calls
    cov = {
        "states": a3.n["histories"] + a1.n["parses"] + a2.n["parses"],
        "transitions": a3.n["steps"] + a1.n["parses"] + a2.n["parses"],
        "traces_validated_against_impl": a3.n["histories"],
        "exhaustive": True,
        "bound": {"max_tokens": N, "max_lexemes": LEX_BOUND[tier], "nesting_depth": NEST, "history_depth": D,
                  "history_alphabet": STICKY},
        "parses_of_token_soups": a1.n["parses"],
        "truncations_of_repo_inputs": a2.n["truncations"],
        "nesting_cases": a2.n["nesting_cases"],
        "parser_histories": a3.n["histories"],
        "explanation": f"A: every token-class string of length <= {N} (with and without blanks), every concatenation of <= "
                       f"{LEX_BOUND[tier]} lexemes and every prefix of every repository example, parsed under a 10 s watchdog; "
                       f"B: six nesting constructs at depth 1..{NEST}; C: every sequence of <= {D} parse calls on one parser over "
                       f"{len(STICKY)} inputs (one per raise site + valid ones), each call compared with a fresh parser",
    }
    return acc, cov, ["documented parse exceptions = ParserException subclasses; ValueError for unsupported characters / malformed numbers",
                      "watchdog of 10 s per parse is about 10^5 times the normal run time"]


def replay(case):
    if isinstance(case, dict) and case.get("disturb"):
        from ..explore import disturb
        return disturb.differential('parse-results', disturb.parse_battery)
    watchdog.install()
    if case["part"] == "A" and case.get("long"):
        text = case["text"]
        return [(f"{k}|long-input|{text[:10]!r}..x{len(text)}", d[:160]) for k, d in check_parse(text) if k == case["kind"]]
    if case["part"] == "S":
        from . import c12
        return [(c.replace("long-session", "sticky-long-session"), d) for c, d in c12.check_session(case["session"], "parse")]
    if case["part"] == "A":
        sep = case["sep"]
        out = []
        for k, d in check_parse(case["text"]):
            if k == case["kind"]:
                out.append((f"{k}|{_classes_of(case['text']) if sep else repr(case['text'])}", d))
        return out
    if case["part"] == "B":
        return check_nesting(case["kind"], case["depth"])
    b = run_sticky(case["texts"])
    if b is None:
        return []
    return [("sticky|" + " ; ".join(repr(t) for t in case["texts"]), f"call {b[0] + 1} diverges")]
