"""C16 - term analysis is order-invariant and inverse to term construction."""
import itertools
from fractions import Fraction

from .. import par
from .. import sig as SG
from ..acc import Acc, merge_all
from ..explore import rewrite as RW
from ..gen import exprs as X
from ..oracle import exact

LEVEL = "exploration"
TERMS = ["2", "-3", "0.5", "x", "y", "2x", "-3x", "x^2", "2x^2", "3y", "-x", "y^2", "4x^3", "x^0", "0"]
# addends that are NOT terms (get_term answers False) or are unusual terms: has_like_terms must skip them wherever they stand
NONTERMS = ["2(y + 1)", "(y + 1)^2", "2^x", "(x + 1)(x + 2)", "-(x + 1)", "sgn(x)", "3!", "x / y"]
# terms for the like-relation: products of several variables included (the relation compares variable lists)
REL_TERMS = TERMS + ["x * y", "y * x", "x * x", "2x * y", "x * y * z", "x^2 * y", "x * 2", "3 * 4", "x / y", "-(x * y)", "x * y^2"]
COEFS = [None, 1, 2, -3, 0.5, 0, -1, 12, -2.5, 2.0, 9, 15, 1.0000000002, 0.9999999999, -1.0000000001]
VARS = [None, "x", "y"]
EXPS = [None, 2, 0, -1, 0.5, 1, 3, 2.0]


def parse(text):
    from mathy_core.parser import ExpressionParser

    return ExpressionParser().parse(text)


def sum_texts(terms):
    """every grouping of t1 + t2 + ... (+ only) incl. the flat natural one"""
    out = X.groupings(list(terms), ["+"])
    out.append(" + ".join(terms))
    return out


def check_like_invariance(multiset):
    """has_like_terms must not depend on order or grouping of the addends"""
    from mathy_core.util import has_like_terms

    answers = {}
    for perm in set(itertools.permutations(multiset)):
        for text in sum_texts(perm):
            try:
                a = bool(has_like_terms(parse(text)))
            except Exception as e:  # noqa
                a = "raise:" + type(e).__name__
            answers.setdefault(a, text)
    if len(answers) == 1 and len(multiset) <= 3:
        # signed sums: every sign vector with a subtraction, every order of the signed addends that starts with an added one
        n = len(multiset)
        for signs in itertools.product("+-", repeat=n):
            if "-" not in signs:
                continue
            signed = {}
            for perm in set(itertools.permutations(list(zip(signs, multiset)))):
                if perm[0][0] == "-":
                    continue
                text = perm[0][1] + "".join(f" {sg} {t}" for sg, t in perm[1:])
                try:
                    a = bool(has_like_terms(parse(text)))
                except Exception as e:  # noqa
                    a = "raise:" + type(e).__name__
                signed.setdefault(a, text)
            if len(signed) > 1:
                return [("has_like_terms-depends-on-order-of-signed-addends", "; ".join(f"{t!r} -> {a}" for a, t in signed.items()))], len(signed)
    if len(answers) > 1:
        return [("has_like_terms-depends-on-order-or-grouping", "; ".join(f"{t!r} -> {a}" for a, t in answers.items()))], len(answers)
    return [], 1


def fmt_num(v):
    return repr(v) if not isinstance(v, float) else repr(v)


def term_text(c, v, e):
    s = ""
    if c is not None:
        s += fmt_num(c)
    if v is not None:
        s += v
    if e is not None:
        s += f"^{fmt_num(e)}"
    return s


def norm(t):
    """absent coefficient == 1 (the normalisation make_term documents)"""
    if t is None:
        return None
    c, v, e = t
    return (1 if c is None else c, v, e)


def check_triple(c, v, e):
    from mathy_core.util import get_term_ex, make_term

    out = []
    text = term_text(c, v, e)
    # 1. extraction returns what was written
    try:
        got = get_term_ex(parse(text))
        got = None if got is None else (got.coefficient, got.variable, got.exponent)
    except Exception as ex:  # noqa
        got = "raise:" + type(ex).__name__
    want = (c, v, e)
    if c is None and v is not None and text.startswith("-"):
        pass
    if got != want or (got is not None and [type(a) for a in got] != [type(a) for a in want]):
        out.append(("get_term_ex-not-what-was-written", f"{text!r}: got {got}, written {want}"))
    # 2. construction has the value c * x^e and decomposes back
    try:
        built = make_term(1 if c is None else c, v, e)
        bs = SG.sig(built)
    except Exception as ex:  # noqa
        return out + [("make_term-raises:" + type(ex).__name__, f"{want}")]
    ref = ("c", SG.const_payload(1 if c is None else c), None, None)
    if v is not None:
        pw = ("v", v, None, None)
        if e is not None:
            pw = ("^", None, pw, ("c", SG.const_payload(e), None, None))
        ref = ("*", None, ref, pw)
    from ..oracle import equiv
    vd = equiv.same_function(bs, ref)
    if not vd.same:
        out.append(("make_term-wrong-value", f"make_term{want} = {SG.show(bs)}, expected value of {SG.show(ref)}; {vd.witness}"))
    try:
        back = get_term_ex(built)
        back = None if back is None else (back.coefficient, back.variable, back.exponent)
    except Exception as ex:  # noqa
        back = "raise:" + type(ex).__name__
    if norm(back) != norm(want) if not isinstance(back, str) else True:
        out.append(("make_term-does-not-decompose-back", f"make_term{want} = {SG.show(bs)} decomposes to {back}"))
    return out


def check_negated_forms():
    """-x and -x^n are natural-order terms with coefficient -1"""
    from mathy_core.util import get_term_ex

    out = []
    for v in ("x", "y"):
        for e in (None, 2, 0.5):
            text = "-" + term_text(None, v, e)
            got = get_term_ex(parse(text))
            got = None if got is None else (got.coefficient, got.variable, got.exponent)
            if got != (-1, v, e):
                out.append(("get_term_ex-not-what-was-written", f"{text!r}: got {got}"))
    return out


def check_factor(n):
    from mathy_core.util import factor

    try:
        f = factor(n)
    except Exception as e:  # noqa
        return [("factor-raises:" + type(e).__name__, str(n))]
    want = {d for d in range(1, n + 1) if n % d == 0}
    keys = set()
    for k, v in f.items():
        if k != int(k) or v != int(v) or int(k) * int(v) != n:
            return [("factor-table-wrong-pair", f"factor({n}) has {k!r}: {v!r}")]
        keys.add(int(k))
    if keys != want:
        return [("factor-table-wrong-divisors", f"factor({n}): {sorted(keys)} expected {sorted(want)}")]
    return []


def check_predicates(tree):
    from mathy_core import util as U

    out = []
    nodes = RW.inorder(tree)
    for name, fn in (("is_add_or_sub", U.is_add_or_sub), ("get_sub_terms", U.get_sub_terms), ("is_simple_term", U.is_simple_term),
                     ("is_preferred_term_form", U.is_preferred_term_form), ("has_like_terms", U.has_like_terms),
                     ("get_terms", U.get_terms)):
        try:
            fn(tree)
        except Exception as e:  # noqa
            out.append((f"{name}-raises:{type(e).__name__}", f"{SG.show(SG.sig(tree))}: {e!r}"[:220]))
    for n in nodes:
        for name, fn in (("get_term", U.get_term), ("get_term_ex", U.get_term_ex), ("is_add_or_sub", U.is_add_or_sub)):
            try:
                fn(n)
            except Exception as e:  # noqa
                out.append((f"{name}-raises:{type(e).__name__}", f"node {SG.show(SG.sig(n))} of {SG.show(SG.sig(tree))}: {e!r}"[:220]))
    for a in nodes[:6]:
        for b in nodes[:6]:
            try:
                U.terms_are_like(a, b)
            except Exception as e:  # noqa
                out.append((f"terms_are_like-raises:{type(e).__name__}", f"{SG.show(SG.sig(a))} vs {SG.show(SG.sig(b))}"[:200]))
    seen, res = set(), []
    for k, d in out:
        if k not in seen:
            seen.add(k)
            res.append((k, d))
    return res


def _pred_view(tree):
    """what the term predicates say about a tree, as plain data"""
    from mathy_core import util as U

    def safe(fn, *a):
        try:
            r = fn(*a)
        except Exception as e:  # noqa
            return "raise:" + type(e).__name__
        if isinstance(r, list):
            return [SG.sig(x) if hasattr(x, "left") else repr(x) for x in r] if r and hasattr(r[0], "left") else repr(r)
        if hasattr(r, "variables"):
            return (tuple(r.coefficients), tuple(r.variables), r.exponent)
        if hasattr(r, "_fields"):
            return tuple(r)
        return r

    view = {"has_like_terms": safe(U.has_like_terms, tree), "is_simple_term": safe(U.is_simple_term, tree),
            "is_preferred_term_form": safe(U.is_preferred_term_form, tree), "get_terms": safe(U.get_terms, tree)}
    nodes = RW.inorder(tree)
    view["get_term"] = [safe(U.get_term, n) for n in nodes]
    view["get_term_ex"] = [safe(U.get_term_ex, n) for n in nodes]
    view["like_self"] = [safe(U.terms_are_like, n, n) for n in nodes[:6]]
    return view


def check_predicates_after_rewrites(text):
    """The predicates describe the CURRENT tree: ask them, rewrite the live tree in place (one and two steps),
    ask again - the answers must be those given for an identical freshly built tree."""
    out = []
    try:
        probe = RW.parse(text)
    except Exception:  # noqa
        return out
    if SG.sig(probe)[0] == "=":
        return out

    def applicable(t):
        res = []
        for cname, rule in RW.configs():
            for i, n in enumerate(RW.inorder(t)):
                try:
                    if rule.can_apply_to(n):
                        res.append((cname, i))
                except Exception:  # noqa
                    pass
        return res

    def play(trace):
        RW.reset_configs()
        t = RW.parse(text).clone()
        _pred_view(t)
        for cname, i in trace:
            t = RW.get_root(RW.config(cname).apply_to(RW.inorder(t)[i]).result)
            v = _pred_view(t)
        return t, v

    for t1 in applicable(probe):
        try:
            mid, v1 = play([t1])
        except Exception:  # noqa
            continue
        traces = [[t1]] + [[t1, t2] for t2 in applicable(mid)[:12]]
        for tr in traces:
            try:
                live, got = play(tr)
                s = SG.sig(live)
                if SG.arity_problems(s):
                    continue
                want = _pred_view(SG.build(s))
            except Exception:  # noqa
                continue
            for k in want:
                if got[k] != want[k]:
                    out.append((f"{k}-stale-after-in-place-rewrite", f"{text!r} after {tr}: live tree {SG.show(s)} answers {str(got[k])[:100]}, "
                                f"an identical fresh tree answers {str(want[k])[:100]}"))
                    return out
    return out


def check_like_relation(ta, tb):
    from mathy_core.util import terms_are_like

    out = []
    a, b = parse(ta), parse(tb)
    try:
        if not terms_are_like(a, a):
            if ta not in ("0",):
                out.append(("terms_are_like-not-reflexive", ta))
        if bool(terms_are_like(a, b)) != bool(terms_are_like(b, a)):
            out.append(("terms_are_like-not-symmetric", f"{ta!r} vs {tb!r}"))
        # in a sum context
        s = parse(f"({ta}) + ({tb})" if not ta.startswith("-") else f"{ta} + ({tb})")
        l, r = s.left, s.right
        if bool(terms_are_like(l, r)) != bool(terms_are_like(r, l)):
            out.append(("terms_are_like-not-symmetric", f"{ta!r} vs {tb!r} as addends"))
        if not terms_are_like(l, l) or not terms_are_like(r, r):
            out.append(("terms_are_like-not-reflexive", f"addend of {ta} + {tb}"))
    except Exception as e:  # noqa
        out.append(("terms_are_like-raises:" + type(e).__name__, f"{ta!r} vs {tb!r}"))
    return out


_MS = []
_TEXTS = []
_HTEXTS = []


def _work(task):
    kind = task[0]
    acc = Acc()
    if kind == "multisets":
        for i in range(task[1], task[2]):
            ms = _MS[i]
            acc.count("multisets")
            res, distinct = check_like_invariance(ms)
            acc.count("orderings_groupings", 1)
            if len(set(ms)) > 1:
                acc.count("nontrivial")
            for k, d in res:
                acc.violation(f"{k}|{' , '.join(sorted(ms))}", {"kind": "multiset", "terms": list(ms)}, d)
            if i % 400 == 0:
                acc.sample({"addends": list(ms), "checked": "all permutations x all groupings of the sum"})
    elif kind == "triples":
        for c, v, e in itertools.product(COEFS, VARS, EXPS):
            if v is None and e is not None:
                continue
            if c is None and v is None:
                continue
            acc.count("triples")
            acc.count("nontrivial")
            for k, d in check_triple(c, v, e):
                acc.violation(f"{k}|c={c!r},v={v!r},e={e!r}", {"kind": "triple", "c": c, "v": v, "e": e}, d)
        for k, d in check_negated_forms():
            acc.violation(k + "|negated", {"kind": "negated"}, d)
        for ta, tb in itertools.product(REL_TERMS, REL_TERMS):
            acc.count("pairs")
            for k, d in check_like_relation(ta, tb):
                acc.violation(f"{k}|{ta}|{tb}", {"kind": "pair", "a": ta, "b": tb}, d)
    elif kind == "bigfactor":
        # semiprimes and prime powers far above the enumerated range (trial division up to 10^5 at most)
        primes = [1009, 1013, 10007, 10009, 99989, 99991]
        big = [p * q for p in primes for q in primes if p <= q] + [2 ** 20, 3 ** 12, 2 ** 10 * 1009, 6 * 10007 * 5]
        small_primes = [p for p in range(2, 1000) if all(p % d for d in range(2, int(p ** 0.5) + 1))]
        big += [p * p for p in small_primes] + [p * q for p, q in zip(small_primes, small_primes[1:])]
        for n in big:
            acc.count("factor_tables")
            f = None
            try:
                from mathy_core.util import factor
                f = factor(n)
            except Exception as e:  # noqa
                acc.violation(f"factor-raises:{type(e).__name__}|n={n}", {"kind": "bigfactor", "n": n}, str(n))
                continue
            want = set()
            i = 1
            while i * i <= n:
                if n % i == 0:
                    want.add(i)
                    want.add(n // i)
                i += 1
            keys = {int(k) for k in f}
            bad = any(int(k) * int(v) != n for k, v in f.items())
            if keys != want or bad:
                acc.violation(f"factor-table-wrong-divisors|n={n}", {"kind": "bigfactor", "n": n},
                              f"factor({n}) lists {sorted(keys)[:12]}..., expected {sorted(want)[:12]}...")
    elif kind == "factor":
        for n in range(task[1], task[2]):
            acc.count("factor_tables")
            for k, d in check_factor(n):
                acc.violation(f"{k}|n={n}", {"kind": "factor", "n": n}, d)
    elif kind == "history":
        for i in range(task[1], task[2]):
            acc.count("predicate_history_texts")
            for k, d in check_predicates_after_rewrites(_HTEXTS[i]):
                acc.violation(k, {"kind": "history", "text": _HTEXTS[i]}, d)
    else:
        for i in range(task[1], task[2]):
            try:
                tree = parse(_TEXTS[i])
            except Exception:  # noqa
                continue
            if SG.sig(tree)[0] == "=":
                continue
            acc.count("predicate_trees")
            for k, d in check_predicates(tree):
                acc.violation(f"{k}|{RW.pat(SG.sig(tree), 2)}", {"kind": "predicates", "text": _TEXTS[i]}, d)
    return acc



def _disturb_task(_):
    from ..explore import disturb

    acc = Acc()
    acc.count("disturbance_rounds", 7)
    for core, detail in disturb.differential('term-analysis-answers', disturb.predicate_battery):
        acc.violation(core, {"disturb": True}, detail)
    return acc

def run(tier, seed):
    nt = 3 if tier == "quick" else 4
    ms = []
    for n in range(2, nt + 1):
        ms += list(itertools.combinations_with_replacement(TERMS, n))
    for n in range(2, 4):
        ms += [m for m in itertools.combinations_with_replacement(TERMS + NONTERMS, n) if any(t in NONTERMS for t in m)]
    _MS[:] = ms
    texts = X.uniform(5 if tier == "quick" else 5) + X.termsums(3, X.TERMS_Q if tier == "quick" else X.TERMS_T)
    if tier == "thorough":
        texts += X.uniform_exact(7, X.LEAVES_SMALL)
    _TEXTS[:] = texts
    NF = 5000 if tier == "quick" else 50000
    tasks = [("multisets", lo, hi) for lo, hi in par.chunks(len(ms), 64)]
    tasks += [("triples",)]
    tasks += [("factor", lo + 1, hi + 1) for lo, hi in par.chunks(NF, 32)]
    tasks += [("bigfactor",)]
    tasks += [("pred", lo, hi) for lo, hi in par.chunks(len(texts), 128)]
    _HTEXTS[:] = X.termsums(2, ["2", "x", "3x", "x^2", "3x^2", "x * x", "y", "2y"], ["+", "*"]) + X.flat_chains(3, ["x", "3x^2", "x * x", "2"], ("+",)) \
        + ["3x^2 + x * x", "x * x + 3x^2", "2x + x * 3", "(1 + 2) * x + 4x", "x^(1 + 1) + 3x^2"]
    tasks += [("history", lo, hi) for lo, hi in par.chunks(len(_HTEXTS), 48)]
    k = seed % len(tasks)
    tasks = tasks[k:] + tasks[:k]
    acc = merge_all(par.pmap(_work, tasks))
    total = acc.n["multisets"] + acc.n["triples"] + acc.n["pairs"] + acc.n["factor_tables"] + acc.n["predicate_trees"]
    acc.merge(par.run_fresh(_disturb_task, None))  # differential: a fixed battery before / after unrelated calls
    cov = {
        "evaluations": total,
        "distinct_nontrivial": acc.n["nontrivial"] + acc.n["predicate_trees"],
        "rule": f"(1) every multiset of 2..{nt} addends from {len(TERMS)} terms plus every multiset of 2..3 addends from these and {len(NONTERMS)} non-term / unusual addends {NONTERMS} "
                f"with at least one of the latter, has_like_terms compared over ALL permutations x ALL groupings, and over all orders of the signed addends for every sign vector with a subtraction; "
                f"(2) all ordered pairs of terms for terms_are_like (reflexive, symmetric; standalone and as addends); (3) every triple over "
                f"coefficients {COEFS} x variables {VARS} x exponents {EXPS}: text -> get_term_ex, make_term value and decomposition; "
                f"(4) factor(n) for every n <= {NF} against the divisor table; (5) every predicate on every uniform / term-structured "
                "non-equation tree must not raise. distinct_nontrivial = multisets with two different terms + triples + predicate trees",
        "exhaustive": True,
        "multisets": acc.n["multisets"], "triples": acc.n["triples"], "pairs": acc.n["pairs"], "factor_tables": acc.n["factor_tables"],
        "predicate_trees": acc.n["predicate_trees"], "predicate_history_texts": acc.n["predicate_history_texts"],
    }
    return acc, cov, ["triples compared modulo 'absent coefficient == 1', the normalisation make_term documents",
                      "natural-order triples only: an exponent without a variable is not a term"]


def replay(case):
    if isinstance(case, dict) and case.get("disturb"):
        from ..explore import disturb
        return disturb.differential('term-analysis-answers', disturb.predicate_battery)
    k = case["kind"]
    if k == "multiset":
        res, _ = check_like_invariance(tuple(case["terms"]))
        return [(f"{a}|{' , '.join(sorted(case['terms']))}", d) for a, d in res]
    if k == "triple":
        return [(f"{a}|c={case['c']!r},v={case['v']!r},e={case['e']!r}", d) for a, d in check_triple(case["c"], case["v"], case["e"])]
    if k == "negated":
        return [(a + "|negated", d) for a, d in check_negated_forms()]
    if k == "pair":
        return [(f"{a}|{case['a']}|{case['b']}", d) for a, d in check_like_relation(case["a"], case["b"])]
    if k == "history":
        return check_predicates_after_rewrites(case["text"])
    if k == "factor":
        return [(f"{a}|n={case['n']}", d) for a, d in check_factor(case["n"])]
    if k == "bigfactor":
        a = _work(("bigfactor",))
        return [(c, e["examples"][0]["detail"]) for c, e in a.viol.items() if c.endswith(f"n={case['n']}")]
    tree = parse(case["text"])
    return [(f"{a}|{RW.pat(SG.sig(tree), 2)}", d) for a, d in check_predicates(tree)]
