"""C02 - rewrites preserve the solution set of equations."""
from . import steps
from .. import sig as SG
from ..explore import rewrite as RW
from ..gen import exprs as X
from ..oracle import equiv

LEVEL = "model_checking"


def judge(s, node, cname, result, error, nb=None):
    """[(core, detail|Verdict)]; core '' carries the verdict of a passing transition."""
    if error is not None or result is None:
        return []
    try:
        rs = SG.sig(RW.get_root(result))
    except Exception:  # noqa
        return []
    if SG.arity_problems(rs):
        return []
    nb = nb or RW.neighbourhood(node)
    if rs[0] != "=":
        return [(f"{cname}|equation-lost|{nb}", f"{SG.show(s)}  ->  {SG.show(rs)}")]
    out = []
    vd = equiv.same_solutions(s, rs)
    if not vd.same:
        out.append((f"{cname}|solution-set-changed|{nb}", f"{SG.show(s)}  ->  {SG.show(rs)}  differ at {vd.witness}"))
    if cname == "BM":
        # a balanced move never divides by zero: no new undefined points
        names, pts, _ = equiv.plan_grid(SG.variables(s) | SG.variables(rs), None, None, min_pts=6)
        d0 = equiv.defined_on(s, names, pts)
        d1 = equiv.defined_on(rs, names, pts)
        for p, a, b in zip(pts, d0, d1):
            if a and not b:
                out.append((f"BM|divides-by-zero|{nb}", f"{SG.show(s)}  ->  {SG.show(rs)}  is undefined at "
                            f"{dict(zip(names, map(str, p)))} where the original is defined"))
                break
    if not out:
        out.append(("", vd))
    return out


class V(steps.Visitor):
    def on_transition(self, acc, ctx, root, s, cname, rule, index, node, result, change, error):
        for core, detail in judge(s, node, cname, result, error, ctx.get("nb")):
            if core == "":
                vd = detail
                if "undecided" in vd.note:
                    acc.count("undecided")
                elif vd.common == 0:
                    acc.count("no_common_domain")
                else:
                    acc.count("decided" if vd.decided else "tested_only")
                continue
            acc.violation(core, {"text": ctx["text"], "trace": ctx["trace"], "cfg": cname, "index": index,
                                 "inplace": ctx.get("inplace", False)}, detail)
        if acc.n["transitions"] % 2000 == 1:
            acc.sample({"start": ctx["text"], "trace": ctx["trace"] + [[cname, index]]})


def run(tier, seed):
    texts, heavy = steps.start_texts(tier, "eqn")
    # quick: one step from every start equation, two steps from the reduced set; thorough: three steps from all
    depth = 1 if tier == "quick" else 3
    acc = steps.run(V, texts, depth, "eqn", seed, heavy)
    if tier == "quick":
        acc.merge(steps.run(V, texts[:heavy] + steps.small_texts("eqn"), 2, "eqn", seed, 0, key="small2"))
    if tier == "quick":
        # ancestor chains of length two around the moved term: one step each is enough (the decision is local)
        deep_ctx = X.contexts(2, ["2", "x", "3x"])
        acc.merge(steps.run(V, deep_ctx, 1, "eqn", seed, 0, key="deepctx"))
    small = steps.small_texts("eqn") if tier == "quick" else texts[heavy:][::3]
    acc.merge(steps.run(V, small, "inplace", "eqn", seed, 0, key="small"))  # live-tree mode, 2 steps
    cov = {
        "states": len(acc.keys),
        "transitions": acc.n["transitions"],
        "traces_validated_against_impl": acc.n["transitions"],
        "exhaustive": True,
        "bound": {"start_texts": len(texts), "closure_depth": depth, "closure_depth_2_start_texts": len(steps.small_texts("eqn")),
                  "inplace_start_texts": len(small)},
        "inplace_transitions": acc.n["inplace_transitions"],
        "decided_by_degree_bound": acc.n["decided"],
        "tested_only": acc.n["tested_only"],
        "undecided_zero_sets_agree_not_proportional": acc.n["undecided"],
        "no_common_domain": acc.n["no_common_domain"],
        "per_config": {k[8:]: v for k, v in sorted(acc.n.items()) if k.startswith("applied:")},
        "explanation": "equation start states (term-structured sides, every ancestor-kind context for the balanced move, repository "
                       "examples) closed under rewrites to the stated depth; every applicable (configuration, node) transition executed "
                       "on clone_from_root; solution sets compared through the difference functions L-R (proportional => equivalent; "
                       "a commonly defined grid point where exactly one vanishes => violation); balanced moves additionally must not "
                       "introduce undefined points",
    }
    return acc, cov, [
        "non-proportional rewrites whose zero sets agree on the candidate grid are counted as undecided, never flagged",
        "start equations use small integers so that their solutions lie on the grid",
    ]


def _replay_direct(case):
    cur, s, cname, rule, index, node, result, change, error, nb = steps.replay_last(case)
    return [(c, d) for c, d in judge(s, node, cname, result, error, nb) if c]


def replay(case):
    """three-level replay, each level in a fresh process (see steps.layered_replay)"""
    return steps.layered_replay(case, _replay_direct, V)
