"""C08 - each rule performs its documented transformation on its documented forms.

For each rule the documented schema (class docstring + rules/*.md) is instantiated by the harness over
coefficients, variables, exponents and operand sub-expressions, embedded in a set of surrounding contexts,
and the result at the schema position is compared (in AC-canonical form) with an independently built
expected shape.  Documented non-applicability must be refused."""
import itertools
from fractions import Fraction

from .. import par
from .. import sig as SG
from ..acc import Acc, merge_all
from ..explore import rewrite as RW
from ..oracle import acform, equiv, exact

LEVEL = "exploration"

COEF = ["2", "3", "-3", "0.5", "1.5", "12"]
OPERANDS = ["2", "x", "y", "3x", "x^2", "(y + 1)", "-3", "0.5y"]
CONTEXTS_ALL = ["{S}", "({S}) + w", "w + ({S})", "({S}) - w", "w - ({S})", "({S}) * w", "w * ({S})", "({S}) / w", "w / ({S})",
                "({S})^2", "2^({S})", "-({S})", "sgn({S})", "({S}) = w", "w = ({S})", "(w + ({S})) * q", "q - (({S}) / w)",
                "sgn(w * ({S})) + q"]
CONTEXTS_RS = ["{S}", "({S}) = w", "w = ({S})", "({S}) + w", "w + ({S})", "(({S}) + w) = q"]
CONTEXTS_Q = CONTEXTS_ALL[:13]


def P(text):
    return SG.sig(RW.parse(text))


def find_node(root, target_sig):
    for i, n in enumerate(RW.inorder(root)):
        if SG.sig(n) == target_sig:
            return i, n
    return None, None


def apply_at(text_schema, context, cname):
    """parse context[S], locate S, apply rule there.  returns dict with keys:
    can, result_sub (sig at the schema position after), whole_before, whole_after, error"""
    full = context.replace("{S}", text_schema)
    root = RW.parse(full)
    target = P(text_schema)
    idx, node = find_node(root, target)
    if node is None:
        return {"error": "harness: schema node not found", "full": full}
    return apply_node(root, idx, cname, full)


def apply_node(root, idx, cname, full):
    rule = RW.config(cname)
    node = RW.inorder(root)[idx]
    path = RW.path_of(node)
    try:
        can = bool(rule.can_apply_to(node))
    except Exception as e:  # noqa
        return {"error": f"can_apply raises {e!r}", "full": full}
    if not can:
        return {"can": False, "full": full}
    try:
        res, change = RW.step(root, rule, idx)
    except Exception as e:  # noqa
        return {"can": True, "error": f"apply raises {e!r}", "full": full}
    after = RW.get_root(res)
    if cname == "AG":
        path = path[:-1]  # the rotation's footprint is the parent position
    if cname == "BM":
        path = ""  # both sides of the equation are rewritten
    sub = after
    for c in path:
        sub = sub.left if c == "L" else sub.right
        if sub is None:
            return {"can": True, "error": "schema position vanished", "full": full}
    return {"can": True, "sub": SG.sig(sub), "after": SG.sig(after), "before": SG.sig(root), "full": full}


def same_fn(a, b):
    return equiv.same_function(a, b).same


def const_value(s):
    if s is None or s[0] != "c":
        return None
    v, st = exact.evaluate(s, {})
    return None if v in (exact.UNDEF, exact.SKIP) else v


# ---------------------------------------------------------------------------------------------------
# schema instances: each yields (rule config, schema text, contexts, expectation function, label)
# expectation(result_dict, schema_sig) -> None | detail string
# ---------------------------------------------------------------------------------------------------

def expect_exact(expected_text):
    want = P(expected_text)

    def f(r, s):
        if acform.ac(r["sub"]) != acform.ac(want):
            return f"result {SG.show(r['sub'])}, documented shape {SG.show(want)}"
        return None

    return f


def expect_structural(expected_text):
    """exact positional shape (no AC freedom)"""
    want = P(expected_text)

    def f(r, s):
        def strip(z):  # compare constants by value
            if z is None:
                return None
            if z[0] == "c":
                return acform.ac(z)
            return (z[0], z[1], strip(z[2]), strip(z[3]))
        if strip(r["sub"]) != strip(want):
            return f"result {SG.show(r['sub'])}, documented shape {SG.show(want)}"
        return None

    return f


def instances(tier):
    ops2 = OPERANDS if tier == "thorough" else OPERANDS[:6]
    ctx_all = CONTEXTS_ALL if tier == "thorough" else CONTEXTS_Q
    # 1. commutative swap a+b -> b+a, a*b -> b*a
    for op in ("+", "*"):
        for a, b in itertools.product(ops2, ops2):
            if a == b:
                continue
            for cfg in ("CS+", "CS-"):
                if cfg == "CS-" and op == "*":
                    continue  # preferred=False is context dependent for products: only the documented refusal is checked below
                sa, sb = P(a), P(b)
                chain = sa[0] == op

                def f(r, s, sa=sa, sb=sb, op=op, chain=chain):
                    sub = r["sub"]
                    if sub[0] != op:
                        return f"result is not a '{op}' node: {SG.show(sub)}"
                    if not chain:
                        if sub[2] != sb or sub[3] != sa:
                            return f"children not exchanged: {SG.show(sub)}"
                        return None
                    # (p op q) op b: the last two operands of the chain are exchanged -> (p op b) op q
                    want = (op, None, (op, None, sa[2], sb), sa[3])
                    if sub != want:
                        return f"last two operands of the chain not exchanged: {SG.show(sub)}, expected {SG.show(want)}"
                    return None

                yield (cfg, f"{a} {op} {b}", ctx_all, f, "swap")
    # documented non-applicability: quotient / difference are not swapped
    for op in ("/", "-"):
        for a, b in itertools.product(ops2[:4], ops2[:4]):
            for cfg in ("CS+", "CS-"):
                yield (cfg, f"{a} {op} {b}", ["{S}", "({S}) + w", "w * ({S})"], "refuse", "swap-refuse")
    for t in ("4x", "8y^4", "0.5x^2"):
        yield ("CS-", t, ["{S}", "({S}) + w"], "refuse", "swap-refuse-preferred-term")
    for t in ("x * 4", "y^4 * 8"):
        yield ("CS-", t, ["{S}", "({S}) + w"], expect_structural(" * ".join(reversed(t.split(" * ")))), "swap-unpreferred-term")
    # equation flip
    for a, b in itertools.product(ops2[:5], ops2[:5]):
        yield ("CS+", f"{a} = {b}", ["{S}"], expect_structural(f"{b} = {a}"), "flip-equation")
    # 2. associative regroup (applied at the inner node)
    for op in ("+", "*"):
        for a, b, c in itertools.product(ops2[:5], repeat=3):
            if len({a, b, c}) < 3:
                continue
            yield ("AG", f"({a} {op} {b}) {op} {c}", ctx_all, ("inner", f"{a} {op} {b}", expect_structural(f"{a} {op} ({b} {op} {c})")), "regroup")
            yield ("AG", f"{a} {op} ({b} {op} {c})", ctx_all, ("inner", f"{b} {op} {c}", expect_structural(f"({a} {op} {b}) {op} {c}")), "regroup")
    # 3. constant arithmetic c1 op c2
    for op in ("+", "-", "*", "/", "^"):
        for a, b in itertools.product(COEF, COEF):
            ref = P(f"({a}) {op} ({b})") if not a.startswith("-") else P(f"{a} {op} ({b})")
            val, st = exact.evaluate(P(f"{a} {op} {b}"), {})
            if val in (exact.UNDEF, exact.SKIP):
                continue

            def f(r, s, val=val, inexact=st.inexact, op=op):
                sub = r["sub"]
                got = const_value(sub)
                if got is None:
                    return f"result is not one constant: {SG.show(sub)}"
                tol = Fraction(1, 10 ** 12) * max(1, abs(val))
                if abs(got - val) > (tol if (inexact or SG.has_float(sub) or op == "/") else 0):
                    return f"folded to {SG.show(sub)}, exact value {val}"
                return None

            yield ("CA", f"{a} {op} {b}", ctx_all, f, "fold")
    # documented sibling skipping / alternate tree forms
    for c1, c2 in itertools.product(["2", "7", "-3", "0.5"], ["8", "10", "1.5"]):
        prod = None
        for text, expected in ((f"{c1}x * {c2}", "{p}x"), (f"{c1} * ({c2}h * t)", "{p}h * t"), (f"({c1} * {c2}y^3) * x", "{p}y^3 * x"),
                               (f"({c1}q * {c2}y^3) * x", "({p}q * y^3) * x"), (f"{c1}z^4 * {c2}f * q^3", "{p}z^4 * f * q^3"),
                               (f"(u^3 * {c1}c^6) * {c2}u^3", "u^3 * {p}c^6 * u^3"), (f"{c1} + ({c2} + x)", "{s} + x"),
                               (f"(a * {c1}b^6) * {c2}c^3", "a * {p}b^6 * c^3"), (f"(a * {c1}b) * {c2}c", "a * {p}b * c"),
                               (f"(a^2 * {c1}b) * {c2}a^2", "a^2 * {p}b * a^2")):
            v1, v2 = Fraction(c1), Fraction(c2)
            p, sm = v1 * v2, v1 + v2

            def fmt(q):
                return str(q.numerator) if q.denominator == 1 else repr(float(q))

            exp_text = expected.format(p=fmt(p), s=fmt(sm))
            yield ("CA", text, ["{S}", "({S}) + w", "w - ({S})"], ("find", expect_exact(exp_text)), "fold-chain")
    # 4. factor out  a x^n + b x^n
    cof = ["", "2", "3", "-3", "0.5", "4", "6", "12"]
    exps = ["", "^2", "^3", "^-1", "^0.5", "^0", "^1"] if tier == "thorough" else ["", "^2", "^3", "^0"]
    for a, b in itertools.product(cof, cof):
        for v in ("x", "y"):
            for e in exps:
                t1, t2 = f"{a}{v}{e}", f"{b}{v}{e}"
                s1, s2 = P(t1), P(t2)

                def f(r, s, s1=s1, s2=s2):
                    sub = r["sub"]
                    if sub[0] != "*":
                        return f"result is not a product: {SG.show(sub)}"
                    for A, Sm in ((sub[2], sub[3]), (sub[3], sub[2])):
                        if Sm is not None and Sm[0] == "+":
                            T1, T2 = Sm[2], Sm[3]
                            p1, p2 = ("*", None, A, T1), ("*", None, A, T2)
                            ok = (same_fn(p1, s1) and same_fn(p2, s2)) or (same_fn(p1, s2) and same_fn(p2, s1))
                            if ok and not (const_value(A) == 1):
                                if SG.variables(T1) or SG.variables(T2):
                                    return f"the common variable was not factored out: {SG.show(sub)}"
                                return None
                    return f"result {SG.show(sub)} is not A * (T1 + T2) with A*T1, A*T2 the two addends"

                yield ("DF", f"{t1} + {t2}", ctx_all, f, "factor")
    # exponents written differently but numerically equal are the same exponent
    for (e1, e2) in (("^2.0", "^2"), ("^2", "^2.0"), ("^3.0", "^3"), ("^0.50", "^0.5")):
        for a, b in (("3", "4"), ("", "2"), ("-3", "0.5")):
            t1, t2 = f"{a}x{e1}", f"{b}x{e2}"
            s1, s2 = P(t1), P(t2)

            def f(r, s, s1=s1, s2=s2):
                sub = r["sub"]
                if sub[0] != "*" or not same_fn(sub, ("+", None, s1, s2)):
                    return f"result {SG.show(sub)} is not a product equal to the sum"
                return None

            yield ("DF", f"{t1} + {t2}", ["{S}", "({S}) * w", "w - ({S})"], f, "factor-equal-exponents-other-spelling")
    # constants only: refused unless enabled
    for a, b in (("4", "6"), ("12", "6"), ("3", "12"), ("4", "4"), ("1018081", "1022117"), ("9", "15"), ("1022117", "2044234"),
                 ("100160063", "100180081")):
        yield ("DF", f"{a} + {b}", ["{S}", "({S}) * w"], "refuse", "factor-constants-refused")

        def f(r, s, a=a, b=b):
            sub = r["sub"]
            if sub[0] != "*":
                return f"result is not a product: {SG.show(sub)}"
            if not same_fn(sub, P(f"{a} + {b}")):
                return "value changed"
            for A, Sm in ((sub[2], sub[3]), (sub[3], sub[2])):
                if Sm[0] == "+" and const_value(A) not in (None, 1):
                    return None
            return f"no common numeric factor pulled out: {SG.show(sub)}"

        yield ("DFc", f"{a} + {b}", ["{S}", "({S}) * w"], f, "factor-constants")
    # unlike terms are not factored
    for t in ("2x + 3y", "x + y", "x^2 + x^3", "3x + 5x^2"):
        yield ("DF", t, ["{S}"], "refuse", "factor-unlike-refused")
    # 5. distribute a(b + c)
    for a, b, c in itertools.product(ops2[:6], ops2[:5], ops2[:5]):
        if b == c:
            continue
        for text in (f"{a} * ({b} + {c})", f"({b} + {c}) * {a}"):
            e1 = expect_exact(f"({a}) * ({b}) + ({a}) * ({c})" if not a.startswith("-") else f"{a} * ({b}) + {a} * ({c})")
            if a.startswith("(") and "+" in a:
                a1, a2 = a[1:-1].split(" + ")
                e2 = expect_exact(f"({b} + {c}) * ({a1}) + ({b} + {c}) * ({a2})")

                def f(r, s, e1=e1, e2=e2):
                    d1 = e1(r, s)
                    return None if d1 is None or e2(r, s) is None else d1
            else:
                f = e1
            yield ("DM", text, ctx_all, f, "distribute")
    # 6. multiplicative inverse
    for a, b in itertools.product(ops2, ops2):
        yield ("MI", f"({a}) / ({b})" if not a.startswith("-") else f"{a} / ({b})", ctx_all,
               expect_structural(f"({a}) * (1 / ({b}))" if not a.startswith("-") else f"{a} * (1 / ({b}))"), "inverse")
    # boundary denominators: the documented form has no exception for 1, 0 or fractions
    for a, b in itertools.product(ops2 + ["1", "0"], ["1", "1.0", "0", "0.5", "10", "1x", "x^1", "x^0"]):
        yield ("MI", f"({a}) / ({b})" if not a.startswith("-") else f"{a} / ({b})", ctx_all,
               expect_structural(f"({a}) * (1 / ({b}))" if not a.startswith("-") else f"{a} * (1 / ({b}))"), "inverse-boundary-denominator")
    for a, b in itertools.product(ops2[:5], ["x", "(y + 1)", "3x", "x^2"]):
        yield ("MI", f"({a}) / -({b})", ctx_all, expect_structural(f"({a}) * (-1 / ({b}))"), "inverse-negative-denominator")
    # 7. restate subtraction a - b -> a + (-b), and back
    for a, b in itertools.product(ops2[:6], ["x", "y", "2", "3x", "x^2", "2x^2", "(y + 1)", "0.5y"]):
        sa, sb = P(a), P(b)

        def f(r, s, sa=sa, sb=sb):
            sub = r["sub"]
            if sub[0] != "+" or sub[2] != sa:
                return f"result is not a + (...): {SG.show(sub)}"
            right = sub[3]
            if right[0] == "neg" and (right[3] if right[3] is not None else right[2]) == sb:
                return None
            if same_fn(right, ("neg", False, None, sb)) and SG.size(right) == SG.size(sb):
                return None  # sign-flipped leading coefficient
            return f"right operand is not the negated subtrahend: {SG.show(sub)}"

        yield ("RS", f"({a}) - ({b})" if not a.startswith("-") else f"{a} - ({b})", CONTEXTS_RS, f, "restate")
    for a, b in itertools.product(ops2[:6], ["-2", "-0.5", "-3x", "-2x^3", "-0.5y^2"]):
        pos = b[1:]
        yield ("RS", f"({a}) + {b}" if not a.startswith("-") else f"{a} + {b}", ["{S}", "({S}) = w", "w + ({S})", "({S}) * w"],
               expect_structural(f"({a}) - {pos}" if not a.startswith("-") else f"{a} - {pos}"), "restate-back")
    for a, b in itertools.product(ops2[:6], ["-x", "-2", "-3y", "-2y^2"]):
        pos = b[1:]
        yield ("RS", f"({a}) - {b}" if not a.startswith("-") else f"{a} - {b}", CONTEXTS_RS,
               expect_structural(f"({a}) + {pos}" if not a.startswith("-") else f"{a} + {pos}"), "restate-double-negative")
    # 8. variable multiply  c1 x^a * c2 x^b -> (c1 * c2) * x^(a + b)
    c8 = ["", "2", "-3", "0.5", "0", "1"]
    e8 = ["", "^2", "^3", "^-1", "^0.5", "^0", "^1"]
    for c1, c2 in itertools.product(c8, c8):
        for e1, e2 in itertools.product(e8, e8):
            for v in ("x", "y"):
                t1, t2 = f"{c1}{v}{e1}", f"{c2}{v}{e2}"
                x1 = e1[1:] or "1"
                x2 = e2[1:] or "1"
                pw = f"{v}^({x1} + {x2})"
                coefs = [c for c in (c1, c2) if c]
                exp_text = " * ".join(coefs + [pw]) if coefs else pw
                yield ("VM", f"{t1} * {t2}", ctx_all, expect_exact(exp_text), "variable-multiply")
    # chained forms: (k * c1 v^a) * c2 v^b and c1 v^a * (c2 v^b * k): the kept operand, BOTH coefficients and the summed exponent
    for k, c1, c2 in itertools.product(["a", "y^2"], ["", "2", "-3"], ["", "3", "0.5"]):
        for e1, e2 in (("", ""), ("^2", "^3"), ("", "^2")):
            x1, x2 = e1[1:] or "1", e2[1:] or "1"
            coefs = [c for c in (c1, c2) if c]
            exp_text = " * ".join([k] + coefs + [f"x^({x1} + {x2})"])
            if c2:  # the documented left-chained form has a coefficient on the right term: (36c^6 * u^3) * 7u^3
                yield ("VM", f"({k} * {c1}x{e1}) * {c2}x{e2}", ["{S}", "({S}) + w", "-({S})"], ("find", expect_exact(exp_text)), "variable-multiply-chained")
            yield ("VM", f"{c1}x{e1} * ({c2}x{e2} * {k})", ["{S}", "({S}) + w"], ("find", expect_exact(exp_text)), "variable-multiply-chained")
    for t in ("x * y", "2x * 3y", "x^2 * y^2", "x * 2"):
        yield ("VM", t, ["{S}", "({S}) + w"], "refuse", "variable-multiply-unlike-refused")
    # 9. balanced move
    terms = ["2", "x", "3x", "x^2", "2x^2", "-x", "0.5y"]
    others = ["y", "3", "2y"]
    for t, o, rhs in itertools.product(terms, others, ["7", "w", "2w"]):
        for eq, tnode, want in ((f"{o} + {t} = {rhs}", t, f"{o} = {rhs} - {t}"), (f"{t} + {o} = {rhs}", t, f"{o} = {rhs} - {t}"),
                                (f"{rhs} = {o} + {t}", t, f"{rhs} - {t} = {o}"), (f"{rhs} = {t} + {o}", t, f"{rhs} - {t} = {o}")):
            yield ("BM", eq, ["{S}"], ("node", tnode, expect_structural(want), "+"), "move-addend")
    # addends two additions below '=' : three-term sums, left-nested and right-grouped, on either side
    for t, rhs in itertools.product(terms, ["7", "w"]):
        o, o2 = "y", "3z"
        for eq, want in ((f"{o} + {t} + {o2} = {rhs}", f"{o} + {o2} = {rhs} - {t}"), (f"{t} + {o} + {o2} = {rhs}", f"{o} + {o2} = {rhs} - {t}"),
                         (f"{o} + {o2} + {t} = {rhs}", f"{o} + {o2} = {rhs} - {t}"), (f"{o} + ({t} + {o2}) = {rhs}", f"{o} + {o2} = {rhs} - {t}"),
                         (f"{o} + ({o2} + {t}) = {rhs}", f"{o} + {o2} = {rhs} - {t}"),
                         (f"{rhs} = {o} + {t} + {o2}", f"{rhs} - {t} = {o} + {o2}"), (f"{rhs} = {o} + {o2} + {t}", f"{rhs} - {t} = {o} + {o2}"),
                         (f"{rhs} = {t} + {o} + {o2}", f"{rhs} - {t} = {o} + {o2}"), (f"{rhs} = {o} + ({t} + {o2})", f"{rhs} - {t} = {o} + {o2}"),
                         (f"({o} + {t}) - {o2} = {rhs}", f"{o} - {o2} = {rhs} - {t}"),
                         (f"{o} + {t} + 4 - {o2} = {rhs}", f"{o} + 4 - {o2} = {rhs} - {t}"),
                         (f"{t} + {o} + 4 - {o2} = {rhs}", f"{o} + 4 - {o2} = {rhs} - {t}"),
                         (f"{rhs} = {o} + {t} + 4 - {o2}", f"{rhs} - {t} = {o} + 4 - {o2}")):
            yield ("BM", eq, ["{S}"], ("node", t, expect_structural(want), "+"), "move-addend-deep")
    for c, X, rhs in itertools.product(["2", "3", "-3", "0.5", "12"], ["x", "x^2", "y"], ["6", "w", "2w"]):
        yield ("BM", f"{c}{X} = {rhs}", ["{S}"], ("node", c, expect_structural(f"{c}{X} / {c} = {rhs} / {c}"), "*"), "divide-coefficient")
        yield ("BM", f"{rhs} = {c}{X}", ["{S}"], ("node", c, expect_structural(f"{rhs} / {c} = {c}{X} / {c}"), "*"), "divide-coefficient")
    for eq, tnode, ptag in (("x * (y + 2) = 3", "2", "+"), ("3 - (x + 2) = 1", "2", "+"), ("0x = 3", "0", "*")):
        yield ("BM", eq, ["{S}"], ("node-refuse", tnode, None, ptag), "move-refused")


import re

_TERM = re.compile(r"^(-?[0-9.]+)([a-z])(\^-?[0-9.]+)?( .*)$")


def arrive_in_place(inst):
    """The documented form must also be accepted when the tree ARRIVES at it through an in-place rewrite while
    the same rule objects have already been asked about the earlier tree: write the first operand 'cx^n' as
    'x^n * c', ask every rule about every node, commute that operand in place, then judge as usual."""
    cfg, schema, contexts, expect, label = inst
    m = _TERM.match(schema)
    if not m or isinstance(expect, tuple) or expect == "refuse":
        return None
    coef, var, exp, rest = m.groups()
    variant = f"{var}{exp or ''} * {coef}{rest}"
    RW.reset_configs()
    try:
        root = RW.parse(variant)
    except Exception:  # noqa
        return None
    RW.scan(root)
    target = P(f"{var}{exp or ''} * {coef}")
    idx, node = find_node(root, target)
    if node is None:
        return None
    try:
        RW.config(cfg).can_apply_to(root)  # the rule under test was asked about this very node just before
        RW.config("CS+").apply_to(node)
    except Exception:  # noqa
        return None
    root = RW.get_root(node)
    s = P(schema)
    if SG.sig(root) != s:
        return None
    # now the live tree is the documented form; the rule objects have history
    rule = RW.config(cfg)
    try:
        can = bool(rule.can_apply_to(root))
    except Exception as e:  # noqa
        return [(f"{cfg}|documented-form-fails|{label}|arrived-in-place", f"{variant!r} commuted in place to {schema!r}: can_apply raises {e!r}")]
    if not can:
        return [(f"{cfg}|documented-form-not-accepted|{label}|arrived-in-place",
                 f"{variant!r} commuted in place to {schema!r}: the rule now refuses the documented form")]
    try:
        res = rule.apply_to(root).result
    except Exception as e:  # noqa
        return [(f"{cfg}|documented-form-fails|{label}|arrived-in-place", f"{variant!r} -> {schema!r}: apply raises {e!r}")]
    detail = expect({"sub": SG.sig(RW.get_root(res))}, s)
    if detail:
        return [(f"{cfg}|undocumented-result-shape|{label}|arrived-in-place", f"{variant!r} -> {schema!r}: {detail}")]
    return []


def check_instance(inst):
    """[(kind, detail)]"""
    cfg, schema, contexts, expect, label = inst
    out = []
    s = P(schema)
    extra = arrive_in_place(inst)
    if extra:
        out.extend(extra)
    RW.reset_configs()
    for ctx in contexts:
        full = ctx.replace("{S}", schema)
        try:
            root = RW.parse(full)
        except Exception as e:  # noqa
            out.append((f"harness:unparsable|{label}", f"{full!r}: {e!r}"))
            continue
        idx, node = find_node(root, s)
        mode = None
        exp = expect
        if isinstance(expect, tuple):
            mode = expect[0]
            if mode in ("inner", "node", "node-refuse"):
                # apply at a named sub-node of the schema
                sub_s = P(expect[1])
                cand = [(i, n) for i, n in enumerate(RW.inorder(root)) if SG.sig(n) == sub_s]
                if mode == "inner":
                    cand = [(i, n) for i, n in cand if n.parent is not None and SG.sig(n.parent)[0] == sub_s[0]] or cand
                elif len(expect) > 3:
                    cand = [(i, n) for i, n in cand if n.parent is not None and SG.TAGS.get(type(n.parent).__name__) == expect[3]]
                if not cand:
                    out.append((f"harness:node-not-found|{label}", full))
                    continue
                idx, node = cand[0]
                exp = expect[2] if mode != "node-refuse" else "refuse"
            elif mode == "find":
                exp = expect[1]
                rule = RW.config(cfg)
                inside = {id(x) for x in RW.inorder(node)} if node is not None else set()
                hit = [(i, n) for i, n in enumerate(RW.inorder(root)) if id(n) in inside and rule.can_apply_to(n)]
                if not hit:
                    out.append((f"{cfg}|documented-form-not-accepted|{label}", f"{full!r}: the rule applies nowhere inside the documented form"))
                    continue
                schema_path = RW.path_of(node)
                r = apply_node(root, hit[0][0], cfg, full)
                if "error" in r:
                    out.append((f"{cfg}|documented-form-fails|{label}", f"{full!r}: {r['error']}"))
                    continue
                sub = r["after"]
                for c in schema_path:
                    sub = sub[2] if c == "L" else sub[3]
                detail = exp(dict(r, sub=sub), s)
                if detail:
                    out.append((f"{cfg}|undocumented-result-shape|{label}", f"{full!r}: {detail}"))
                continue
            elif mode == "whole":
                exp = expect[1]
        if node is None:
            out.append((f"harness:node-not-found|{label}", full))
            continue
        r = apply_node(root, idx, cfg, full)
        if exp == "refuse":
            if r.get("can"):
                out.append((f"{cfg}|documented-refusal-not-respected|{label}", f"{full!r}: rule reports applicable at {SG.show(SG.sig(node))}"))
            continue
        if "error" in r:
            out.append((f"{cfg}|documented-form-fails|{label}", f"{full!r}: {r['error']}"))
            continue
        if not r["can"]:
            out.append((f"{cfg}|documented-form-not-accepted|{label}", f"{full!r}: rule refuses {SG.show(SG.sig(node))}"))
            continue
        if mode in ("node",):
            r = dict(r, sub=r["after"])
        if mode == "inner":
            # the documented result of a regroup is judged at the position of the outer node
            pass
        if mode == "whole" or mode is None or mode == "inner" or mode == "node":
            detail = exp(r, s)
            if detail:
                out.append((f"{cfg}|undocumented-result-shape|{label}", f"{full!r}: {detail}"))
        # the regroup is tied to rotation
        if cfg == "AG" and "sub" in r:
            root2 = RW.parse(full)
            n2 = RW.inorder(root2)[idx]
            n2.rotate()
            if SG.sig(RW.get_root(n2)) != r["after"]:
                out.append(("AG|regroup-is-not-a-rotation|regroup", full))
    return out


_INST = []


def _work(task):
    lo, hi = task
    acc = Acc()
    for i in range(lo, hi):
        inst = _INST[i]
        acc.count("instances")
        acc.count("applications", len(inst[2]))
        acc.count("label:" + inst[4])
        res = check_instance(inst)
        for core, detail in res:
            acc.violation(core, {"index": i, "cfg": inst[0], "schema": inst[1], "label": inst[4]}, detail)
        if i % 700 == 0:
            acc.sample({"rule": inst[0], "schema": inst[1], "contexts": inst[2][:4], "kind": inst[4]})
    return acc


def _disturb_task(_):
    """documented forms are accepted and rewritten the same way whatever was called before"""
    from ..explore import disturb
    from . import c06

    acc = Acc()
    for core, detail in disturb.differential("documented-forms", c06._rule_battery):
        acc.violation(core, {"index": -1, "cfg": "*", "schema": "*", "label": "disturb"}, detail)
    return acc


def run(tier, seed):
    _INST[:] = list(instances(tier))
    n = len(_INST)
    parts = par.chunks(n, 160)
    k = seed % len(parts)
    parts = parts[k:] + parts[:k]
    acc = merge_all(par.pmap(_work, parts))
    acc.merge(par.run_fresh(_disturb_task, None))
    cov = {
        "evaluations": acc.n["applications"],
        "distinct_nontrivial": acc.n["instances"],
        "rule": "every instantiation of the documented schemas (swap, flip, regroup, fold incl. the documented alternate tree forms, "
                "factor-out, constants-only factoring, distribute, inverse incl. negative and boundary (1, 1.0, 0, 0.5, x^0 ...) denominators, restate and back, variable "
                "multiply, move addend, divide coefficient, and the documented refusals) over the coefficient / variable / exponent / "
                "operand alphabets, each embedded in the context set; evaluations = rule applications (schema x context); "
                "distinct_nontrivial = distinct schema instances",
        "exhaustive": True,
        "per_schema_kind": {k[6:]: v for k, v in sorted(acc.n.items()) if k.startswith("label:")},
    }
    return acc, cov, ["expected shapes are built by the harness from the rule documentation and compared in AC-canonical form",
                      "context-dependent rules (restate, balanced move, commutative preferred=False) are only required to accept in documented contexts"]


def replay(case):
    if case.get("label") == "disturb":
        from ..explore import disturb
        from . import c06
        return disturb.differential("documented-forms", c06._rule_battery)
    insts = list(instances("thorough"))
    for inst in insts:
        if inst[0] == case["cfg"] and inst[1] == case["schema"] and inst[4] == case["label"]:
            return check_instance(inst)
    return []
