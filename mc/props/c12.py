"""C12 - parser results do not depend on call history.

Space: every sequence of <= D operations on one ExpressionParser over the alphabet
  parse(t), tokenize(t) for t in TEXTS; clear_cache(); consume / reverse / extend the most recently
  returned token list.
Oracle: each returned tree / token list equals what a fresh parser returns for the same text."""
from .. import par
from .. import sig as SG
from ..acc import Acc, merge_all
from ..explore import history as H

LEVEL = "model_checking"
DEPTH = {"quick": (4, 5), "thorough": (5, 6)}  # (full alphabet, core alphabet)
CORE_TEXTS = ["4x + 2", "4x+2", "4x +", ") 4", "", "x = 2y^2"]
# texts that collide under whitespace removal, and a failing text that leaves 64 groups open
# ... and an int / float spelling of the same token stream
EXTRA_TEXTS = ["12x", "1 2x", "(" * 64 + "x", "(x + 1)(x - 1)", "2x^3", "2.0x^3.0"]
TEXTS = CORE_TEXTS + EXTRA_TEXTS
MUTATORS = [("clear",), ("consume",), ("reverse",), ("extend",), ("new",)]  # 'new': continue on a brand-new parser object
OPS_CORE = [("parse", t) for t in CORE_TEXTS] + [("tokenize", t) for t in CORE_TEXTS] + MUTATORS
OPS = [("parse", t) for t in TEXTS] + [("tokenize", t) for t in TEXTS] + MUTATORS


def opname(op):
    return op[0] if len(op) == 1 else f"{op[0]}({op[1]!r})"


def _obs_tree(fn, text):
    try:
        return ("tree", SG.sig(fn(text)))
    except Exception as e:  # noqa
        return ("raise", type(e).__name__, str(getattr(e, "message", e)))


def _obs_tokens(fn, text):
    try:
        return ("tokens", tuple((t.type, t.value) for t in fn(text)))
    except Exception as e:  # noqa
        return ("raise", type(e).__name__, str(getattr(e, "message", e)))


_FRESH = {}


def fresh(kind, text):
    from mathy_core.parser import ExpressionParser

    key = (kind, text)
    if key not in _FRESH:
        p = ExpressionParser()
        _FRESH[key] = _obs_tree(p.parse, text) if kind == "parse" else _obs_tokens(p.tokenize, text)
    return _FRESH[key]


def run_history(ops):
    """Execute ops on one fresh parser; return (index, op, got, want) of the first divergence or None,
    plus a canonical description of the final state."""
    from mathy_core.parser import ExpressionParser
    from mathy_core.tokenizer import TOKEN_TYPES, Token

    p = ExpressionParser()
    last = None
    for i, op in enumerate(ops):
        kind = op[0]
        if kind == "parse":
            got = _obs_tree(p.parse, op[1])
            want = fresh("parse", op[1])
            if got != want:
                return (i, op, got, want)
        elif kind == "tokenize":
            lst = None
            try:
                lst = p.tokenize(op[1])
                got = ("tokens", tuple((t.type, t.value) for t in lst))
            except Exception as e:  # noqa
                got = ("raise", type(e).__name__, str(getattr(e, "message", e)))
            want = fresh("tokenize", op[1])
            if got != want:
                return (i, op, got, want)
            if lst is not None:
                last = lst
        elif kind == "clear":
            p.clear_cache()
        elif kind == "new":
            p = ExpressionParser()  # whatever happened to earlier parser objects must not matter to this one
        elif last is not None:
            if kind == "consume":
                while last:
                    last.pop(0)
            elif kind == "reverse":
                last.reverse()
            elif kind == "extend":
                last.append(Token("junk", TOKEN_TYPES.Invalid))
    return None


def describe(got):
    if got[0] == "tree":
        return "tree " + SG.show(got[1])
    return repr(got)[:200]


def shrink(ops):
    """drop operations while a divergence persists (the query is the diverging step)"""
    ops = list(ops)
    bad = run_history(ops)
    ops = ops[: bad[0] + 1]
    changed = True
    while changed:
        changed = False
        for i in range(len(ops) - 1):
            cand = ops[:i] + ops[i + 1:]
            if run_history(cand) is not None:
                ops = cand
                changed = True
                break
    return ops


def _work(task):
    which, depth, lo, hi = task
    alphabet = OPS if which == "full" else OPS_CORE
    acc = Acc()
    for idxs in H.sequences(len(alphabet), depth, lo, hi):
        ops = [alphabet[i] for i in idxs]
        if which == "core" and depth < DEPTH_FULL[0] + 1:
            pass
        acc.count("histories")
        acc.count("steps", len(ops))
        texts = [o[1] for o in ops if len(o) > 1]
        if len(set(texts)) < len(texts) or any(o[0] in ("consume", "reverse", "extend", "clear", "new") for o in ops):
            acc.count("nontrivial")
        bad = run_history(ops)
        if bad is not None:
            small = shrink(ops)
            b = run_history(small)
            core = "history|" + " ; ".join(opname(o) for o in small)
            acc.violation(core, {"ops": [list(o) for o in small]},
                          f"step {b[0] + 1} {opname(b[1])}: got {describe(b[2])}, fresh parser gives {describe(b[3])}")
    if lo == 0:
        acc.sample([opname(alphabet[i])[:40] for i in H.G.nth(list(range(len(alphabet))), depth, max(lo, hi // 2))])
    return acc


DEPTH_FULL = [0]


def session_texts(n):
    """a long deterministic session on ONE parser: n distinct texts (every 9th fails to parse, one has 70+ tokens),
    interleaved with repeats of texts seen long before"""
    out = []
    for i in range(n):
        if i % 9 == 4:
            out.append(f"{i}x + ")
        elif i == 100:
            out.append(" + ".join(f"{k}x" for k in range(1, 40)))
        else:
            out.append(f"{i}x + {i % 7}y^{i % 5 + 2}")
        if i % 10 == 9 and i > 80:
            out.append(out[(i * 7) % (len(out) - 70)])  # something seen at least 70 texts ago
    out += out[:40]
    return out


def check_session(n, use):
    from mathy_core.parser import ExpressionParser

    p = ExpressionParser()
    res = []
    for i, t in enumerate(session_texts(n)):
        if use == "parse":
            got = _obs_tree(p.parse, t)
            want = _obs_tree(ExpressionParser().parse, t)
        else:
            got = _obs_tokens(p.tokenize, t) if i % 2 else _obs_tree(p.parse, t)
            want = _obs_tokens(ExpressionParser().tokenize, t) if i % 2 else _obs_tree(ExpressionParser().parse, t)
        if got != want:
            res.append((f"long-session|{use}|call {i + 1}", f"call {i + 1} on one parser, text {t[:40]!r}: {describe(got)[:120]} vs fresh {describe(want)[:120]}"))
            break
    return res


def run(tier, seed):
    DF, DC = DEPTH[tier]
    DEPTH_FULL[0] = DF
    D = DC
    tasks = [("full",) + t for t in H.tasks(len(OPS), DF, parts=128)]
    # the core alphabet one level deeper (lengths up to DF are already covered by the full alphabet)
    tasks += [("core",) + t for t in H.tasks(len(OPS_CORE), DC, parts=128) if t[0] > DF]
    k = seed % len(tasks)
    tasks = tasks[k:] + tasks[:k]
    for kind, t in [o for o in OPS if len(o) > 1]:
        fresh(kind, t)
    acc = merge_all(par.pmap(_work, tasks))
    NS = 2500 if tier == "quick" else 10000
    for use in ("parse", "mixed"):
        acc.count("histories")
        acc.count("steps", NS)
        for core, detail in check_session(NS, use):
            acc.violation(core, {"session": NS, "use": use}, detail)
    cov = {
        "states": acc.n["histories"],
        "transitions": acc.n["steps"],
        "traces_validated_against_impl": acc.n["histories"],
        "exhaustive": True,
        "bound": {"max_operations_full_alphabet": DF, "max_operations_core_alphabet": DC,
                  "alphabet": [opname(o)[:50] for o in OPS], "core_alphabet_size": len(OPS_CORE)},
        "histories_with_repeated_text_or_mutation": acc.n["nontrivial"],
        "explanation": f"every operation sequence of length 1..{DF} over {len(OPS)} operations and of length {DF + 1}..{DC} over the "
                       f"{len(OPS_CORE)} core operations, each replayed from a fresh parser "
                       f"(a state is identified with the history reaching it, no merging), plus two deterministic sessions of {NS} calls on one "
                       "parser (distinct texts, failing texts, a 70-token text, repeats of texts seen long before); every returned tree / token list is "
                       "compared with a fresh parser's answer for the same text; every history is an execution of the implementation",
    }
    return acc, cov, ["token objects are not mutated: the property promises independent lists, not deep copies",
                      "returned trees are not mutated by the harness (the parse cache hands out the same tree object)"]


def replay(case):
    if "session" in case:
        return check_session(case["session"], case["use"])
    ops = [tuple(o) for o in case["ops"]]
    b = run_history(ops)
    if b is None:
        return []
    return [("history|" + " ; ".join(opname(o) for o in ops),
             f"step {b[0] + 1} {opname(b[1])}: got {describe(b[2])}, fresh parser gives {describe(b[3])}")]
